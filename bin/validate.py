#!/usr/bin/env python3-vt
import json, jsonschema, glob, sys, os
D = os.path.dirname(os.path.dirname(os.path.abspath(__file__)))
jsonschema.validate(json.load(open(D+'/MANIFEST.json')), json.load(open('/root/.vp/MANIFEST.schema.json')))
es = json.load(open('/root/.vp/EVIDENCE.schema.json'))
for f in sorted(glob.glob(D+'/evidence/*.json')):
    jsonschema.validate(json.load(open(f)), es)
    print('valid', os.path.basename(f))
print('manifest valid')
