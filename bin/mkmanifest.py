#!/usr/bin/env python3
"""Regenerates MANIFEST.json from the table below (kept next to the checks so that the
claimed level/technique of each property stays in one place)."""
import json, os, sys
D = os.path.dirname(os.path.dirname(os.path.abspath(__file__)))
props = [json.loads(l) for l in open(os.path.join(D, "properties.jsonl"))]
ids = [p["id"] for p in props]
table = json.load(open(os.path.join(D, "bin", "manifest_table.json")))
checks, na = [], []
for i in ids:
    t = table.get(i)
    if not t or t.get("not_applicable"):
        na.append({"property_id": i, "reason": (t or {}).get("not_applicable", "check not built yet in this session (work in progress)")})
        continue
    checks.append({
        "property_id": i,
        "quick_cmd": f"bin/check {i} quick",
        "thorough_cmd": f"bin/check {i} thorough",
        "evidence_file": f"evidence/{i}.json",
        "replay_cmd_template": "bin/check replay {path}",
        "engine": t["engine"],
        "level_claimed": {"category": t["level"], "text": t["text"], "design_ref": t.get("design_ref", "DESIGN.md section 6")},
        "level_note": t["note"],
        "technique": t["technique"],
    })
m = {
    "version": 1,
    "setup_cmd": "bin/setup",
    "hooks": {
        "guard": "none in the source tree: instrumentation is generated at check time into a temporary `go build -overlay` (DESIGN.md section 3, E5); /repo carries no hook commits",
        "enable": "bin/check builds /verif/mc against /repo's working tree through a replace directive; instrumented checks add -overlay <generated json>",
        "baseline_off_cmd": "cd /repo && GOFLAGS=-mod=mod GOPROXY=off GOSUMDB=off GOTOOLCHAIN=local go test -vet=off -count=1 ./...",
        "source_commits": [],
        "add_only": True,
    },
    "engines": table["_engines"],
    "checks": checks,
    "not_applicable": na,
    "notes": table.get("_notes", ""),
}
json.dump(m, open(os.path.join(D, "MANIFEST.json"), "w"), indent=1)
print("claimed:", [c["property_id"] for c in checks], "not_applicable:", [n["property_id"] for n in na])
