package checks

import (
	"encoding/json"
	"fmt"
	"github.com/free5gc/ike/message"

	"verif/mc/engine"
	"verif/mc/ref"
	"verif/mc/univ"
)

// C03 — plain codec round trip: project(Decode(Encode(m))) == m for every message of
// the universe (all payload sequences up to the depth bound, every field sweep).

type c03Case struct {
	Name string   `json:"name"`
	M    ref.Msg  `json:"m"`
	Fits bool     `json:"fits"`
	Then *ref.Msg `json:"then,omitempty"` // a second message encoded before the first one's bytes are decoded
}

func depthFor(c *engine.Ctx) int {
	if c.Thorough() {
		return 3
	}
	return 2
}

// deepDepth is the depth bound of the checks whose per-message cost is a few microseconds.
func deepDepth(c *engine.Ctx) int {
	if c.Thorough() {
		return 4
	}
	return 2
}

func init() {
	engine.Register(&engine.Check{
		ID:    "C03",
		Level: "model_checking",
		Rule: "explicit enumeration of builder-op sequences (payload alphabet Σq, all sequences up to the depth bound) plus every value of every 8-bit field, every value of every 16-bit field, every SPI/selector/transform count and the data-length boundary set; " +
			"each case runs Build* → Encode → Decode on the real code and compares the projection with the descriptor; a state is a distinct canonical message, a transition one builder op or one codec step; distinct_nontrivial counts distinct encodings that decoded to a non-empty payload list",
		Assumptions: []string{"equality is on the exported-field projection with nil ≡ empty byte strings; header NextPayload/PayloadBytes are bookkeeping and excluded",
			"field contents beyond the swept dimension are drawn from fixed patterns (DESIGN 9)"},
		Run: func(c *engine.Ctx) {
			univ.Messages(deepDepth(c), func(name string, m ref.Msg) {
				if c.Mine() {
					evalC03(c, c03Case{Name: name, M: m, Fits: true})
				}
			})
			univ.Sweeps(c.Thorough(), func(name string, m ref.Msg, fits bool) {
				if c.Mine() {
					evalC03(c, c03Case{Name: name, M: m, Fits: fits})
				}
			})
		},
		Replay: func(c *engine.Ctx, raw json.RawMessage) {
			var cs c03Case
			unmarshalCase(raw, &cs)
			c03Prev = nil
			if cs.Then != nil {
				first := cs
				first.Then = nil
				evalC03(c, first)
				evalC03(c, c03Case{Name: "(then)", M: *cs.Then, Fits: true})
				return
			}
			evalC03(c, cs)
		},
	})
}

func evalC03(c *engine.Ctx, cs c03Case) {
	c.Evals++
	m := cs.M
	_, b, stage, err, pi := encodeLib(m)
	c.Transitions += int64(len(m.P)) + 1
	if pi != nil {
		c.Violate(pi.Sig(), fmt.Sprintf("%s of %s panics: %s", stage, cs.Name, pi.Value), cs)
		return
	}
	if !cs.Fits {
		c.Count("outside_domain(oversize)", 1)
		if err == nil {
			c.Violate("oversize-accepted/"+dim(cs.Name), fmt.Sprintf("%s does not fit its length fields but encodes to %d octets without error", cs.Name, len(b)), cs)
		}
		return
	}
	if err != nil {
		who := culprit(m, func(x ref.Msg) bool { _, _, _, e, p := encodeLib(x); return e != nil || p != nil })
		c.Violate("encode-error/"+who+"/"+dim(cs.Name), fmt.Sprintf("%s: %s failed: %s", cs.Name, stage, errStr(err)), cs)
		return
	}
	c.Sample("message", map[string]string{"name": cs.Name, "wire": engine.Hex(trunc(b, 96))})
	// the same message with the caller's slices laid out adversarially (sibling slices carved from one backing
	// array) must encode to the same bytes
	if hasNested(m) {
		if lr, berr := univ.Build(m); berr == nil {
			univ.RelayoutMode(&lr.Payloads, 1)
			var rb []byte
			var rerr error
			if rpi := engine.Catch(func() { rb, rerr = lr.Encode() }); rpi != nil || rerr != nil || string(rb) != string(b) {
				c.Violate("roundtrip/encoding-depends-on-memory-layout", fmt.Sprintf("%s: with sibling slices sharing one backing array the message encodes differently (err=%v)", cs.Name, rerr), cs)
				return
			}
		}
	}
	lm2, derr, pi := decodeLib(b)
	c.Transitions++
	c.Traces++
	if pi != nil {
		c.Violate(pi.Sig(), fmt.Sprintf("Decode(Encode(%s)) panics: %s", cs.Name, pi.Value), cs)
		return
	}
	if derr != nil {
		who := culprit(m, func(x ref.Msg) bool {
			_, xb, _, e, p := encodeLib(x)
			if e != nil || p != nil {
				return false
			}
			_, de, dp := decodeLib(xb)
			return de != nil || dp != nil
		})
		c.Violate("decode-error/"+who+"/"+dim(cs.Name), fmt.Sprintf("%s: own encoding rejected: %s", cs.Name, errStr(derr)), cs)
		return
	}
	got := univ.Project(lm2)
	if got.Canon() != m.Canon() {
		d := "header"
		if got.H == m.H {
			d = ref.FirstDiff(m.P, got.P)
		}
		c.Violate("roundtrip/"+d, fmt.Sprintf("%s: want %s got %s", cs.Name, trs(m.Canon()), trs(got.Canon())), cs)
		return
	}
	// the other decoding entry points give the same message: header parsed separately + DecodePayload on the rest,
	// and the payload chain alone through the container
	{
		var alt message.IKEMessage
		var aerr error
		api := engine.Catch(func() {
			var h *message.IKEHeader
			if h, aerr = message.ParseHeader(b[:28:28]); aerr == nil {
				alt.IKEHeader = h
				aerr = alt.DecodePayload(b[28:])
			}
		})
		if api != nil || aerr != nil || univ.Project(&alt).Canon() != m.Canon() {
			c.Violate("roundtrip/via-ParseHeader+DecodePayload", fmt.Sprintf("%s: ParseHeader on the 28 header octets and DecodePayload on the rest give %v %v %s", cs.Name, api, aerr, trs(univ.Project(&alt).Canon())), cs)
			return
		}
		var cont message.IKEPayloadContainer
		var cerr error
		if cpi := engine.Catch(func() { cerr = cont.Decode(b[16], b[28:]) }); cpi != nil || cerr != nil || ref.CanonPayloads(univ.ProjectPayloads(cont)) != ref.CanonPayloads(m.P) {
			c.Violate("roundtrip/via-container-decode", fmt.Sprintf("%s: IKEPayloadContainer.Decode on the payload chain gives %v %v", cs.Name, cpi, cerr), cs)
			return
		}
	}
	// the holder of the decoded message edits it (every integer complemented, every byte slice overwritten): a
	// decoder that hands out objects it keeps using shows in the round trips that follow
	engine.Scribble(&lm2.Payloads)
	if c.State(engine.Hash64(b)) {
		c.States++
		if len(m.P) > 0 {
			c.Distinct(engine.Hash64(b))
		}
	}
	// delayed decode: the encoding of the previous message, still held by the caller, is decoded only
	// after this message has been encoded (an encoder that hands out memory it reuses later is
	// invisible to an immediate encode -> decode)
	if prev := c03Prev; prev != nil && len(prev.wire) <= 4096 {
		c.Transitions++
		pm, perr, ppi := decodeLib(prev.wire)
		if ppi != nil || perr != nil || univ.Project(pm).Canon() != prev.canon {
			c.Violate("roundtrip/encoding-changed-after-later-encode", fmt.Sprintf("the bytes returned by Encode for %q no longer decode to that message after %q was encoded (err=%v)", prev.name, cs.Name, perr),
				c03Case{Name: prev.name + " || " + cs.Name, M: prev.m, Fits: true, Then: &cs.M})
		}
	}
	c03Prev = &c03Held{name: cs.Name, m: m, wire: b, canon: m.Canon()}
}

type c03Held struct {
	name  string
	m     ref.Msg
	wire  []byte
	canon string
}

var c03Prev *c03Held

func trunc(b []byte, n int) []byte {
	if len(b) > n {
		return b[:n]
	}
	return b
}

func trs(s string) string {
	if len(s) > 240 {
		return s[:240] + "…"
	}
	return s
}

func hasNested(m ref.Msg) bool {
	for _, p := range m.P {
		if p.T == ref.PSA || p.T == ref.PTSi || p.T == ref.PTSr || p.T == ref.PCP {
			return true
		}
	}
	return false
}
