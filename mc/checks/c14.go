package checks

import (
	"bytes"
	"encoding/json"
	"fmt"

	"github.com/free5gc/ike/eap"

	"verif/mc/engine"
	"verif/mc/ref"
	"verif/mc/univ"
)

// C14 — EAP codec round trip and RFC 3748/4187/5448 framing incl. EAP-AKA' attributes.

type c14Case struct {
	K     string        `json:"k"` // packet | setter | overwrite
	Name  string        `json:"name"`
	E     *ref.EAP      `json:"eap,omitempty"`
	T     uint8         `json:"attr,omitempty"`
	N     int           `json:"size,omitempty"`
	Seq   []ref.AKAAttr `json:"seq,omitempty"`
	Then  *ref.EAP      `json:"then,omitempty"`
	Lib   int           `json:"liberty,omitempty"` // wire: 1 non-zero padding, 2 non-zero reserved octets, 3 spare words
	Fill  byte          `json:"fill,omitempty"`
	Spare int           `json:"spare_words,omitempty"`
}

func init() {
	engine.Register(&engine.Check{
		ID:    "C14",
		Level: "exploration",
		Rule: "all 65536 (code, identifier) pairs; Identity/Notification/Nak data 1..64; Expanded vendor id {0,1,10415,0xFFFFFF} × vendor type {0,3,2^32−1} × data lengths {0..64, 65515..65530}; EAP-AKA': all 2^7 subsets of the settable attributes × RES 4..16 × KDF_INPUT 0..300 × CHECKCODE {0,20,32}, every SetAttr order of every subset up to 5 attributes and rotations/reversal beyond (thorough: all 5040 orders of the full set), setter sizes 0..300 for every attribute, overwrite sequences of depth <= 3 on one object. " +
			"Oracle: the strict reference EAP/AKA' parser accepts Marshal output (length field = size, Success/Failure bare, 24-bit vendor id, 4-aligned attributes with word lengths, zero padding, exact bit lengths) and reads the fields that were set; Unmarshal(Marshal(p)) keeps code/id/method data; GetAttr(t).GetValue() equals the value set, on the built and on the decoded object; wrong sizes are refused; repeated Marshal calls are byte-identical. distinct_nontrivial = distinct encoded packets that passed all clauses",
		Assumptions: []string{"AT_RES and AT_KDF_INPUT carry the value length in bits, as the property statement prescribes (RFC 5448 counts the network name in octets)",
			"map iteration order is Go's native randomised order in this check; the owned map-order seam is part of the instrumented C20 check"},
		Run: runC14,
		Replay: func(c *engine.Ctx, raw json.RawMessage) {
			engine.PinMapOrder()
			var cs c14Case
			unmarshalCase(raw, &cs)
			c14Prev = nil
			switch cs.K {
			case "packet2":
				c14Packet(c, c14Case{K: "packet", Name: cs.Name, E: cs.E})
				c14Packet(c, c14Case{K: "packet", Name: "(then)", E: cs.Then})
			case "packet":
				c14Packet(c, cs)
			case "wire":
				c14Wire(c, cs)
			case "maporder":
				c14MapOrder(c, cs.E)
			case "setter":
				c14Setter(c, cs.T, cs.N)
			case "overwrite":
				c14Overwrite(c, cs.Seq)
			}
		},
	})
}

func runC14(c *engine.Ctx) {
	engine.PinMapOrder()
	pk := func(name string, e *ref.EAP) {
		c14Packet(c, c14Case{K: "packet", Name: name, E: e})
	}
	for code := 0; code < 256; code++ {
		if !c.Mine() {
			continue
		}
		for id := 0; id < 256; id++ {
			e := &ref.EAP{Code: uint8(code), ID: uint8(id)}
			if code != 3 && code != 4 {
				e.Method, e.Data = uint8(1+(code+id)%3), []byte{byte(id), byte(code)}
			}
			pk("code×id", e)
		}
	}
	for n := 1; n <= 64; n++ {
		if !c.Mine() {
			continue
		}
		for m := 1; m <= 3; m++ {
			pk(fmt.Sprintf("method%d.len", m), &ref.EAP{Code: uint8(1 + n%2), ID: uint8(n), Method: uint8(m), Data: univ.Pat(n, n+m)})
		}
	}
	var lens []int
	for i := 0; i <= 64; i++ {
		lens = append(lens, i)
	}
	for i := 65515; i <= 65530; i++ {
		lens = append(lens, i)
	}
	for _, vid := range []uint32{0, 1, 10415, 0xffffff} {
		for _, vt := range []uint32{0, 3, 0xffffffff} {
			if !c.Mine() {
				continue
			}
			for _, n := range lens {
				pk("expanded.len", &ref.EAP{Code: 1, ID: 7, Method: 254, VID: vid, VType: vt, Data: univ.Pat(n, n)})
			}
		}
	}
	// EAP-AKA'
	vals := func(res, kdfin, chk int) map[uint8][]byte {
		return map[uint8][]byte{ref.AtRAND: univ.Pat(16, 1), ref.AtAUTN: univ.Pat(16, 2), ref.AtRES: univ.Pat(res, 3), ref.AtMAC: univ.Pat(16, 4),
			ref.AtKDF: {0, 1}, ref.AtKDFInput: univ.Pat(kdfin, 5), ref.AtCheckcode: univ.Pat(chk, 6)}
	}
	subset := func(mask int, v map[uint8][]byte) []ref.AKAAttr {
		var ats []ref.AKAAttr
		for i, t := range ref.AKASettable {
			if mask&(1<<uint(i)) != 0 {
				ats = append(ats, ref.AKAAttr{T: t, V: v[t]})
			}
		}
		return ats
	}
	for mask := 0; mask < 128; mask++ {
		if !c.Mine() {
			continue
		}
		base := subset(mask, vals(7, 9, 20))
		// every SetAttr order
		if len(base) <= 5 || (c.Thorough() && len(base) <= 7) {
			permuteAKA(base, func(o []ref.AKAAttr) {
				pk("aka.order", &ref.EAP{Code: 1, ID: uint8(mask), Method: 50, Sub: 1, AKA: o})
			})
		} else {
			for r := 0; r < len(base); r++ {
				o := append(append([]ref.AKAAttr(nil), base[r:]...), base[:r]...)
				pk("aka.order", &ref.EAP{Code: 1, ID: uint8(mask), Method: 50, Sub: 1, AKA: o})
				rev := make([]ref.AKAAttr, len(o))
				for i := range o {
					rev[len(o)-1-i] = o[i]
				}
				pk("aka.order", &ref.EAP{Code: 2, ID: uint8(mask), Method: 50, Sub: 5, AKA: rev})
			}
		}
		// value sizes, one dimension at a time
		if mask&4 != 0 {
			for n := 4; n <= 16; n++ {
				pk("aka.res", &ref.EAP{Code: 2, ID: 1, Method: 50, Sub: 1, AKA: subset(mask, vals(n, 9, 20))})
			}
		}
		if mask&32 != 0 {
			step := 1
			if !c.Thorough() && mask != 32 && mask != 127 && mask != 36 {
				step = 7
			}
			for n := 0; n <= 300; n += step {
				pk("aka.kdfinput", &ref.EAP{Code: 1, ID: 1, Method: 50, Sub: 1, AKA: subset(mask, vals(7, n, 20))})
			}
		}
		if mask&64 != 0 {
			for _, n := range []int{0, 20, 32} {
				pk("aka.checkcode", &ref.EAP{Code: 1, ID: 1, Method: 50, Sub: 1, AKA: subset(mask, vals(7, 9, n))})
			}
		}
		// full product for small subsets
		if len(base) <= 3 && mask&(4|32|64) != 0 {
			for res := 4; res <= 16; res += 3 {
				for kd := 0; kd <= 12; kd++ {
					for _, ch := range []int{0, 20, 32} {
						pk("aka.product", &ref.EAP{Code: 1, ID: 2, Method: 50, Sub: 13, AKA: subset(mask, vals(res, kd, ch))})
					}
				}
			}
		}
	}
	// packets from a foreign sender that used its liberties (non-zero padding, non-zero reserved octets, spare words)
	for mask := 1; mask < 128; mask++ {
		if !c.Mine() {
			continue
		}
		for _, sz := range [][3]int{{7, 9, 20}, {5, 1, 0}, {16, 30, 32}, {4, 0, 20}, {6, 2, 20}} {
			e := &ref.EAP{Code: uint8(1 + mask%2), ID: uint8(mask), Method: 50, Sub: 1, AKA: subset(mask, vals(sz[0], sz[1], sz[2]))}
			for _, fill := range []byte{0xff, 0xa5, 0x01} {
				c14Wire(c, c14Case{K: "wire", Name: "aka.wire", E: e, Lib: 1, Fill: fill})
				c14Wire(c, c14Case{K: "wire", Name: "aka.wire", E: e, Lib: 2, Fill: fill})
			}
			for spare := 1; spare <= 3; spare++ {
				for _, fill := range []byte{0, 0xff} {
					c14Wire(c, c14Case{K: "wire", Name: "aka.wire", E: e, Lib: 3, Fill: fill, Spare: spare})
				}
			}
		}
	}
	// every attribute type code 0..255 that has no dedicated reader, as a foreign sender may include it: alone, twice
	// in a row (types t and t+1) and at either end of the packet; what is decoded must be what is emitted again
	for t := 0; t < 256; t++ {
		if !c.Mine() {
			continue
		}
		special := false
		for _, st := range ref.AKASettable {
			special = special || int(st) == t
		}
		if special {
			continue
		}
		u := (t + 1) % 256
		for _, st := range ref.AKASettable {
			if int(st) == u {
				u = (u + 1) % 256
			}
		}
		rnd := ref.AKAAttr{T: ref.AtRAND, V: univ.Pat(16, t)}
		a1 := ref.AKAAttr{T: uint8(t), V: []byte{byte(t), 0x5a}}
		a2 := ref.AKAAttr{T: uint8(u), V: append([]byte{0, 1}, univ.Pat(4, t)...)}
		for i, ats := range [][]ref.AKAAttr{{a1}, {rnd, a1}, {a1, rnd}, {a1, a2}, {rnd, a1, a2}, {a1, a2, rnd}, {a2, a1}} {
			c14Wire(c, c14Case{K: "wire", Name: fmt.Sprintf("aka.foreign-type=%d/%d", t, i), E: &ref.EAP{Code: 1, ID: uint8(t), Method: 50, Sub: 1, AKA: ats}})
		}
	}
	// map iteration order (instrumented build): encoding and attribute lookup must not depend on it
	if engine.InstrumentedBuild() {
		for mask := 0; mask < 128; mask++ {
			if !c.Mine() {
				continue
			}
			c14MapOrder(c, &ref.EAP{Code: 1, ID: uint8(mask), Method: 50, Sub: 1, AKA: subset(mask, vals(7, 9, 20))})
		}
	} else {
		c.Note("map-order seam not available in a plain build")
	}
	// setter sizes
	for _, t := range ref.AKASettable {
		if !c.Mine() {
			continue
		}
		for n := 0; n <= 300; n++ {
			c14Setter(c, t, n)
		}
	}
	for t := 0; t < 256; t++ {
		if c.Mine() {
			c14Setter(c, uint8(t), 16)
			c14Setter(c, uint8(t), 2)
		}
	}
	// overwrite sequences, depth <= 3 over an alphabet of (type, value) settings
	alpha := []ref.AKAAttr{{T: ref.AtRES, V: univ.Pat(5, 1)}, {T: ref.AtRES, V: univ.Pat(16, 2)}, {T: ref.AtRES, V: univ.Pat(8, 3)}, {T: ref.AtKDFInput, V: univ.Pat(3, 4)}, {T: ref.AtKDFInput, V: nil},
		{T: ref.AtKDFInput, V: univ.Pat(260, 5)}, {T: ref.AtMAC, V: univ.Pat(16, 6)}, {T: ref.AtMAC, V: univ.Fill(16, 0)}, {T: ref.AtCheckcode, V: univ.Pat(20, 7)}, {T: ref.AtCheckcode, V: nil}, {T: ref.AtKDF, V: []byte{0, 2}},
		// settings the setter must refuse; they must leave the message untouched
		{T: ref.AtRES, V: univ.Pat(3, 8)}, {T: ref.AtRES, V: univ.Pat(17, 9)}, {T: ref.AtMAC, V: univ.Pat(15, 10)}, {T: ref.AtKDF, V: []byte{1, 2, 3}}, {T: ref.AtRAND, V: nil},
		// pseudo operations: intermediate Marshal; compute AT_MAC over the message and store it
		{T: 0, V: []byte{1}}, {T: 0, V: []byte{2}}}
	var rec func(seq []ref.AKAAttr)
	rec = func(seq []ref.AKAAttr) {
		if len(seq) > 0 {
			c14Overwrite(c, seq)
		}
		if len(seq) == 3 {
			return
		}
		for _, a := range alpha {
			rec(append(append([]ref.AKAAttr(nil), seq...), a))
		}
	}
	for _, a := range alpha {
		if c.Mine() {
			rec([]ref.AKAAttr{a})
		}
	}
}

// c14WireBytes assembles an EAP-AKA' packet the way a foreign sender may: lib selects the liberty taken —
// 1: padding octets of AT_RES / AT_KDF_INPUT filled with fill; 2: reserved octets (AKA' header, RAND, AUTN, MAC,
// CHECKCODE) filled with fill; 3: AT_RES / AT_KDF_INPUT reserve `spare` extra words filled with fill.
func c14WireBytes(e *ref.EAP, lib int, fill byte, spare int) ([]byte, error) {
	d := []byte{50, e.Sub, 0, 0}
	if lib == 2 {
		d[2], d[3] = fill, fill
	}
	for _, a := range e.AKA {
		ab, err := ref.EncodeAKAAttr(a)
		if err != nil {
			return nil, err
		}
		switch a.T {
		case ref.AtRES, ref.AtKDFInput:
			if lib == 1 {
				for i := 4 + len(a.V); i < len(ab); i++ {
					ab[i] = fill
				}
			}
			if lib == 3 {
				if int(ab[1])+spare > 255 {
					return nil, ref.ErrTooBig
				}
				ab[1] += byte(spare)
				for i := 0; i < 4*spare; i++ {
					ab = append(ab, fill)
				}
			}
		case ref.AtRAND, ref.AtAUTN, ref.AtMAC, ref.AtCheckcode:
			if lib == 2 {
				ab[2], ab[3] = fill, fill
			}
		}
		d = append(d, ab...)
	}
	if 4+len(d) > 0xffff {
		return nil, ref.ErrTooBig
	}
	return append([]byte{e.Code, e.ID, byte((4 + len(d)) >> 8), byte(4 + len(d))}, d...), nil
}

// c14Wire: a packet received from a foreign sender that used its liberties. If the library accepts it, the values
// read back are the values carried, and what the library then emits for this message is well-formed (zero padding,
// lengths in words, exact bit lengths) and carries the same values.
func c14Wire(c *engine.Ctx, cs c14Case) {
	c.Evals++
	wire, err := c14WireBytes(cs.E, cs.Lib, cs.Fill, cs.Spare)
	if err != nil {
		return
	}
	d := new(eap.EAP)
	var derr error
	if pi := engine.Catch(func() { derr = d.Unmarshal(append([]byte(nil), wire...)) }); pi != nil {
		c.Violate(pi.Sig(), "EAP.Unmarshal panics: "+pi.Value, cs)
		return
	}
	if derr != nil {
		c.Count("foreign_packets_refused", 1)
		return
	}
	tag := fmt.Sprintf("liberty%d", cs.Lib)
	if a, b, bad := sharedCapacity(d); bad {
		c.Violate("wire/decoded-values-share-capacity", fmt.Sprintf("%s: the decoded values at %s (len %d, cap %d) and %s (len %d, cap %d) overlap in memory: appending to one overwrites the other", cs.Name, a.Path, a.Len, a.Cap, b.Path, b.Len, b.Cap), cs)
		return
	}
	got := univ.ProjectEAP(d)
	want := *cs.E
	want.AKA = nil
	m := akaMap(cs.E.AKA)
	for t := 0; t < 256; t++ {
		if v, ok := m[uint8(t)]; ok {
			want.AKA = append(want.AKA, ref.AKAAttr{T: uint8(t), V: v})
		}
	}
	// attribute types without a dedicated reader keep their first two octets in a field GetValue does not show:
	// for those, only the re-encoding below is compared
	settableOnly := func(e ref.EAP) ref.EAP {
		var keep []ref.AKAAttr
		for _, a := range e.AKA {
			for _, st := range ref.AKASettable {
				if a.T == st {
					keep = append(keep, a)
				}
			}
		}
		e.AKA = keep
		return e
	}
	gs, ws := settableOnly(*got), settableOnly(want)
	if gs.Canon() != ws.Canon() || len(got.AKA) != len(want.AKA) {
		c.Violate("wire/values/"+tag, fmt.Sprintf("%s: packet %x decodes to %s, carries %s", cs.Name, trunc(wire, 60), trs(got.Canon()), trs(want.Canon())), cs)
		return
	}
	var b1, b2 []byte
	var e1 error
	if pi := engine.Catch(func() { b1, e1 = d.Marshal(); b2, _ = d.Marshal() }); pi != nil {
		c.Violate(pi.Sig(), "EAP.Marshal of a decoded packet panics: "+pi.Value, cs)
		return
	}
	if e1 != nil {
		c.Count("decoded_foreign_packet_not_encodable", 1)
		return
	}
	if !bytes.Equal(b1, b2) {
		c.Violate("wire/marshal-not-deterministic/"+tag, fmt.Sprintf("%s: %x vs %x", cs.Name, trunc(b1, 40), trunc(b2, 40)), cs)
		return
	}
	pe, perr := ref.ParseEAPOpt(b1, true)
	if perr != nil {
		c.Violate("wire/malformed/"+classify(perr)+"/"+tag, fmt.Sprintf("%s: received %x, emitted %x: %v", cs.Name, trunc(wire, 60), trunc(b1, 60), perr), cs)
		return
	}
	if pe.Canon() != want.Canon() {
		c.Violate("wire/re-encoded-fields/"+tag, fmt.Sprintf("%s: emitted packet says %s, received packet carried %s", cs.Name, trs(pe.Canon()), trs(want.Canon())), cs)
		return
	}
	c.Distinct(engine.Hash64(wire))
}

func akaMap(at []ref.AKAAttr) map[uint8][]byte {
	m := map[uint8][]byte{}
	for _, a := range at {
		m[a.T] = a.V
	}
	return m
}

func c14Packet(c *engine.Ctx, cs c14Case) {
	c.Evals++
	e := cs.E
	le, err := univ.BuildEAP(e)
	if err != nil {
		c.Violate("build-refused/"+dim(cs.Name), fmt.Sprintf("%s: %v", cs.Name, err), cs)
		return
	}
	want := *e
	if e.Method == 50 {
		// last setting per type wins
		want.AKA = nil
		m := akaMap(e.AKA)
		for t := 0; t < 256; t++ {
			if v, ok := m[uint8(t)]; ok {
				want.AKA = append(want.AKA, ref.AKAAttr{T: uint8(t), V: v})
			}
		}
		// value read back from the freshly set object
		ak := le.EapTypeData.(*eap.EapAkaPrime)
		for _, a := range want.AKA {
			got, gerr := ak.GetAttr(eap.EapAkaPrimeAttrType(a.T))
			if gerr == nil && (got.GetAttrType().Value() != a.T || eap.EapAkaPrimeAttrType(a.T).Value() != a.T) {
				c.Violate(fmt.Sprintf("getattr/wrong-attribute/at%d", a.T), fmt.Sprintf("%s: GetAttr(%d) returns an attribute of type %d", cs.Name, a.T, got.GetAttrType().Value()), cs)
				return
			}
			if gerr != nil || !bytes.Equal(got.GetValue(), a.V) {
				c.Violate(fmt.Sprintf("getvalue/built/at%d", a.T), fmt.Sprintf("%s: SetAttr(%d, %x) then GetValue gives %x (%v)", cs.Name, a.T, trunc(a.V, 24), trunc(got.GetValue(), 24), gerr), cs)
				return
			}
		}
	}
	var b1, b2 []byte
	var e1 error
	if pi := engine.Catch(func() { b1, e1 = le.Marshal(); b2, _ = le.Marshal() }); pi != nil {
		c.Violate(pi.Sig(), "EAP.Marshal panics: "+pi.Value, cs)
		return
	}
	total := 4
	if rb, rerr := ref.EncodeEAP(&want); rerr == nil {
		total = len(rb)
	} else {
		total = 1 << 20
	}
	if total > 0xffff {
		if e1 == nil {
			c.Violate("oversize-accepted/"+dim(cs.Name), fmt.Sprintf("%s: packet of more than 65535 octets marshals to %d octets without error (length field %d)", cs.Name, len(b1), int(b1[2])<<8|int(b1[3])), cs)
		} else {
			c.Count("oversize_refused", 1)
		}
		return
	}
	if e1 != nil {
		c.Violate("marshal-error/"+dim(cs.Name), fmt.Sprintf("%s: %v", cs.Name, e1), cs)
		return
	}
	if !bytes.Equal(b1, b2) {
		c.Violate("marshal-not-deterministic/"+dim(cs.Name), fmt.Sprintf("%s: two Marshal calls differ: %x vs %x", cs.Name, trunc(b1, 40), trunc(b2, 40)), cs)
		return
	}
	pe, perr := ref.ParseEAP(b1)
	if perr != nil {
		c.Violate("malformed/"+classify(perr)+"/"+dim(cs.Name), fmt.Sprintf("%s: strict parser refuses %x: %v", cs.Name, trunc(b1, 60), perr), cs)
		return
	}
	if pe.Canon() != want.Canon() {
		c.Violate("wire-fields/"+dim(cs.Name), fmt.Sprintf("%s: wire says %s, set was %s", cs.Name, trs(pe.Canon()), trs(want.Canon())), cs)
		return
	}
	// ascending attribute order on the wire is not demanded by the property; only determinism is.
	d := new(eap.EAP)
	var derr error
	if pi := engine.Catch(func() { derr = d.Unmarshal(b1) }); pi != nil {
		c.Violate(pi.Sig(), "EAP.Unmarshal of own output panics: "+pi.Value, cs)
		return
	}
	if derr != nil {
		c.Violate("own-output-refused/"+dim(cs.Name), fmt.Sprintf("%s: %x: %v", cs.Name, trunc(b1, 60), derr), cs)
		return
	}
	if a, b, bad := sharedCapacity(d); bad {
		c.Violate("decoded-values-share-capacity", fmt.Sprintf("%s: the decoded values at %s (cap %d) and %s (cap %d) overlap in memory", cs.Name, a.Path, a.Cap, b.Path, b.Cap), cs)
		return
	}
	got := univ.ProjectEAP(d)
	if got.Canon() != want.Canon() {
		pa, pb := ref.Payload{T: ref.PEAP, EAP: &want}, ref.Payload{T: ref.PEAP, EAP: got}
		c.Violate("roundtrip/"+ref.FirstDiff([]ref.Payload{pa}, []ref.Payload{pb}), fmt.Sprintf("%s: decoded %s, want %s", cs.Name, trs(got.Canon()), trs(want.Canon())), cs)
		return
	}
	c.Distinct(engine.Hash64(b1))
	c.Sample(dim(cs.Name), map[string]string{"packet": engine.Hex(trunc(b1, 64)), "descriptor": trs(want.Canon())})
	// a receiver that decodes every packet of a conversation into one EAP value: the value that held the previous
	// packet (possibly of the same method, with other attributes) gives the same result as a new one
	if pv := c14Prev; pv != nil {
		u := new(eap.EAP)
		var e1, e2 error
		if pi := engine.Catch(func() { e1 = u.Unmarshal(pv.want); e2 = u.Unmarshal(b1) }); pi != nil {
			c.Violate(pi.Sig(), "EAP.Unmarshal into a used value panics: "+pi.Value, c14Case{K: "packet2", Name: pv.name, E: pv.e, Then: cs.E})
			return
		}
		if e1 == nil {
			if e2 != nil || univ.ProjectEAP(u).Canon() != want.Canon() {
				c.Violate("roundtrip/decoded-into-used-value", fmt.Sprintf("%s decoded into an EAP value that held %q before: %s (err %v), want %s", cs.Name, pv.name, trs(univ.ProjectEAP(u).Canon()), e2, trs(want.Canon())), c14Case{K: "packet2", Name: pv.name, E: pv.e, Then: cs.E})
				c14Prev = nil
				return
			}
			c.Count("decoded_into_used_value", 1)
		}
	}
	// the bytes returned for the previous packet must still be that packet after this Marshal
	if pv := c14Prev; pv != nil && !bytes.Equal(pv.wire, pv.want) {
		c.Violate("returned-buffer-changed-by-later-marshal", fmt.Sprintf("the bytes returned by Marshal for %q changed when %q was marshalled", pv.name, cs.Name), c14Case{K: "packet2", Name: pv.name, E: pv.e, Then: cs.E})
		c14Prev = nil
		return
	}
	c14Prev = &c14Held{name: cs.Name, e: cs.E, wire: b2, want: append([]byte(nil), b2...)}
}

type c14Held struct {
	name string
	e    *ref.EAP
	wire []byte
	want []byte
}

var c14Prev *c14Held

// c14Setter: the setter refuses wrong sizes for the fixed-size attributes and unknown types.
func c14Setter(c *engine.Ctx, t uint8, n int) {
	c.Evals++
	cs := c14Case{K: "setter", T: t, N: n}
	a := eap.NewEapAkaPrime(eap.SubtypeAkaChallenge)
	v := univ.Pat(n, n+int(t))
	var err error
	if pi := engine.Catch(func() { err = a.SetAttr(eap.EapAkaPrimeAttrType(t), v) }); pi != nil {
		c.Violate(pi.Sig(), fmt.Sprintf("SetAttr(%d, %d octets) panics: %s", t, n, pi.Value), cs)
		return
	}
	ok, known := true, true
	switch t {
	case ref.AtRAND, ref.AtAUTN, ref.AtMAC:
		ok = n == 16
	case ref.AtKDF:
		ok = n == 2
	case ref.AtRES:
		ok = n >= 4 && n <= 16
	case ref.AtKDFInput, ref.AtCheckcode:
	default:
		known = false
	}
	if !known {
		if err == nil {
			c.Count("foreign_attribute_type_accepted_by_setter(not constrained by the property)", 1)
		}
		return
	}
	if !ok {
		if err == nil {
			c.Violate(fmt.Sprintf("wrong-size-accepted/at%d", t), fmt.Sprintf("SetAttr(%d) accepts %d octets", t, n), cs)
			return
		}
		if _, gerr := a.GetAttr(eap.EapAkaPrimeAttrType(t)); gerr == nil {
			c.Violate(fmt.Sprintf("refused-value-stored/at%d", t), fmt.Sprintf("SetAttr(%d, %d octets) returned an error but the attribute is present", t, n), cs)
		}
		c.Count("wrong_sizes_refused", 1)
		return
	}
	if err != nil {
		if t == ref.AtKDFInput || t == ref.AtCheckcode {
			if n <= 300 && (t == ref.AtKDFInput || n == 0 || n == 20 || n == 32) {
				c.Violate(fmt.Sprintf("right-size-refused/at%d", t), fmt.Sprintf("SetAttr(%d, %d octets): %v", t, n, err), cs)
			}
			return
		}
		c.Violate(fmt.Sprintf("right-size-refused/at%d", t), fmt.Sprintf("SetAttr(%d, %d octets): %v", t, n, err), cs)
		return
	}
	got, gerr := a.GetAttr(eap.EapAkaPrimeAttrType(t))
	if gerr != nil || !bytes.Equal(got.GetValue(), v) {
		c.Violate(fmt.Sprintf("getvalue/built/at%d", t), fmt.Sprintf("SetAttr(%d, %d octets) then GetValue gives %d octets", t, n, len(got.GetValue())), cs)
		return
	}
	// the value read back is the value that was set, whatever the caller does with its buffer afterwards (RAND and
	// AUTN sliced from one authentication vector that is wiped, a scratch buffer that is refilled): the message as
	// encoded before and after must be the same, too
	if n > 0 {
		want := append([]byte(nil), v...)
		before, berr := a.Marshal()
		for i := range v {
			v[i] ^= 0xff
		}
		got2, gerr2 := a.GetAttr(eap.EapAkaPrimeAttrType(t))
		if gerr2 != nil || !bytes.Equal(got2.GetValue(), want) {
			c.Violate(fmt.Sprintf("getvalue/changes-with-callers-buffer/at%d", t), fmt.Sprintf("SetAttr(%d, %d octets), then the caller overwrites its buffer: GetValue gives %x, set was %x", t, n, trunc(got2.GetValue(), 24), trunc(want, 24)), cs)
			return
		}
		after, aerr := a.Marshal()
		if (berr == nil) != (aerr == nil) || !bytes.Equal(before, after) {
			c.Violate(fmt.Sprintf("encoding-changes-with-callers-buffer/at%d", t), fmt.Sprintf("SetAttr(%d, %d octets), Marshal, the caller overwrites its buffer, Marshal: %x then %x", t, n, trunc(before, 40), trunc(after, 40)), cs)
			return
		}
	}
	c.DistinctS(fmt.Sprint("setter", t, n))
}

// c14Overwrite: a sequence of SetAttr calls on one object; the last value per type wins.
func c14Overwrite(c *engine.Ctx, seq []ref.AKAAttr) {
	c.Evals++
	cs := c14Case{K: "overwrite", Seq: seq}
	a := eap.NewEapAkaPrime(eap.SubtypeAkaChallenge)
	e := &eap.EAP{Code: eap.EapCodeRequest, Identifier: 9, EapTypeData: a}
	var valid []ref.AKAAttr
	for _, s := range seq {
		if s.T == 0 {
			// pseudo operations between the settings: an intermediate Marshal (its output is judged like the final
			// one), or the usual authentication step — compute the code over the message, then store it
			switch s.V[0] {
			case 1:
				b, err := e.Marshal()
				if err != nil {
					c.Violate("overwrite/marshal-error", errStr(err), cs)
					return
				}
				want := &ref.EAP{Code: 1, ID: 9, Method: 50, Sub: 1}
				m := akaMap(valid)
				for t := 0; t < 256; t++ {
					if v, ok := m[uint8(t)]; ok {
						want.AKA = append(want.AKA, ref.AKAAttr{T: uint8(t), V: v})
					}
				}
				if pe, perr := ref.ParseEAP(b); perr != nil || pe.Canon() != want.Canon() {
					c.Violate("overwrite/stale-value/intermediate", fmt.Sprintf("intermediate Marshal after %d settings: %x (%v), settings so far %s", len(valid), trunc(b, 60), perr, trs(want.Canon())), cs)
					return
				}
			case 2:
				var mac []byte
				var err error
				if pi := engine.Catch(func() { mac, err = e.CalcEapAkaPrimeAtMAC(univ.Pat(32, 3)) }); pi != nil {
					c.Violate(pi.Sig(), "CalcEapAkaPrimeAtMAC panics: "+pi.Value, cs)
					return
				}
				if err != nil || len(mac) != 16 {
					c.Violate("overwrite/mac-error", fmt.Sprintf("%v (%d octets)", err, len(mac)), cs)
					return
				}
				mac = append([]byte(nil), mac...)
				if err := a.SetAttr(eap.AT_MAC, mac); err != nil {
					c.Violate("overwrite/set-error", errStr(err), cs)
					return
				}
				valid = append(valid, ref.AKAAttr{T: ref.AtMAC, V: mac})
			}
			continue
		}
		wrong := (s.T == ref.AtRES && (len(s.V) < 4 || len(s.V) > 16)) || ((s.T == ref.AtRAND || s.T == ref.AtAUTN || s.T == ref.AtMAC) && len(s.V) != 16) || (s.T == ref.AtKDF && len(s.V) != 2)
		err := a.SetAttr(eap.EapAkaPrimeAttrType(s.T), s.V)
		if wrong {
			if err == nil {
				c.Violate(fmt.Sprintf("wrong-size-accepted/at%d", s.T), fmt.Sprintf("SetAttr(%d, %d octets) accepted on a used message", s.T, len(s.V)), cs)
				return
			}
			continue // a refused setting must leave the message as it was
		}
		if err != nil {
			c.Violate("overwrite/set-error", errStr(err), cs)
			return
		}
		valid = append(valid, s)
	}
	seq = valid
	b, err := e.Marshal()
	if err != nil {
		c.Violate("overwrite/marshal-error", errStr(err), cs)
		return
	}
	want := &ref.EAP{Code: 1, ID: 9, Method: 50, Sub: 1}
	m := akaMap(seq)
	for t := 0; t < 256; t++ {
		if v, ok := m[uint8(t)]; ok {
			want.AKA = append(want.AKA, ref.AKAAttr{T: uint8(t), V: v})
		}
	}
	pe, perr := ref.ParseEAP(b)
	if perr != nil {
		c.Violate("overwrite/malformed/"+classify(perr), fmt.Sprintf("after %d SetAttr calls: %x: %v", len(seq), trunc(b, 60), perr), cs)
		return
	}
	if pe.Canon() != want.Canon() {
		c.Violate("overwrite/stale-value", fmt.Sprintf("wire says %s, last accepted settings are %s", trs(pe.Canon()), trs(want.Canon())), cs)
		return
	}
	d := new(eap.EAP)
	if derr := d.Unmarshal(b); derr != nil || univ.ProjectEAP(d).Canon() != want.Canon() {
		c.Violate("overwrite/roundtrip", fmt.Sprintf("after the settings %v the packet does not decode back: %v", seq, derr), cs)
		return
	}
	c.Distinct(engine.Hash64(b, []byte("ow")))
}

// c14MapOrder: under every map iteration order the seam can produce, Marshal gives the same bytes,
// GetAttr finds every attribute, and the decoded packet is the same.
func c14MapOrder(c *engine.Ctx, e *ref.EAP) {
	cs := c14Case{K: "maporder", Name: "aka.maporder", E: e}
	le, err := univ.BuildEAP(e)
	if err != nil {
		return
	}
	var first []byte
	bad := ""
	// each library call is explored on its own (the calls are independent; exploring their product would
	// only repeat the same single-call behaviours)
	execs, capped := engine.ForAllMapOrders(20000, func([]int) {
		c.Evals++
		b, err := le.Marshal()
		if err != nil {
			bad = "marshal error under some iteration order: " + err.Error()
			return
		}
		if first == nil {
			first = b
		} else if !bytes.Equal(first, b) {
			bad = fmt.Sprintf("Marshal output depends on the map iteration order: %x vs %x", trunc(first, 40), trunc(b, 40))
		}
	})
	ak := le.EapTypeData.(*eap.EapAkaPrime)
	for _, a := range e.AKA {
		a := a
		n, cp := engine.ForAllMapOrders(20000, func([]int) {
			c.Evals++
			got, gerr := ak.GetAttr(eap.EapAkaPrimeAttrType(a.T))
			if gerr != nil || !bytes.Equal(got.GetValue(), a.V) {
				bad = fmt.Sprintf("GetAttr(%d) depends on the map iteration order", a.T)
			}
		})
		execs += n
		capped = capped || cp
	}
	c.Count("map_order_executions", execs)
	if capped {
		c.Cap("map-order executions capped at 20000 for one packet")
	}
	if bad != "" {
		c.Violate("map-order-dependence", bad, cs)
	}
}
