package checks

import (
	"bytes"
	"encoding/json"
	"fmt"
	"strings"
	"sync"
	"time"

	ikeCrypto "github.com/free5gc/ike/security/IKECrypto"
	"github.com/free5gc/ike/security/encr"

	"verif/mc/engine"
	"verif/mc/ref"
	"verif/mc/univ"
)

// C10 — AES-CBC transform: inverse, size law, fresh IVs, bad keys and inputs refused.

type c10Case struct {
	K      string `json:"k"` // keysize | encrypt | negative | history
	KeyLen int    `json:"key_len"`
	Desc   int    `json:"descriptor"` // index into EncrKeyLens
	N      int    `json:"plaintext_len"`
	Pat    int    `json:"pattern"`
	Env    []int  `json:"env,omitempty"`
	CT     string `json:"ciphertext_hex,omitempty"`
	Hist   []int  `json:"history,omitempty"`
	Op     int    `json:"op,omitempty"`
	At     int    `json:"at_read,omitempty"` // overlap: index of the outer call's read of the random source during which the other calls run
}

func c10Key(n, pat int) []byte {
	switch pat {
	case 0:
		return univ.Fill(n, 0)
	case 1:
		return univ.Fill(n, 0xff)
	}
	return univ.Pat(n, 40+pat)
}

func c10Plain(n, pat int) []byte {
	switch pat {
	case 0:
		return univ.Fill(n, 0)
	case 1:
		return univ.Fill(n, 0xff)
	}
	return univ.Pat(n, 50+pat+n)
}

func init() {
	engine.Register(&engine.Check{
		ID:    "C10",
		Level: "fault_enumeration",
		Rule: "key lengths 0..64 against each of the three AES-CBC descriptors (only the negotiated size accepted); for the accepted size: key patterns × every plaintext length 0..80 (thorough: 0..4096) × content patterns × every answer vector of the scripted random source (full/zero/0xFF/short/error per read) with <= 2 (quick) / 3 (thorough) deviations, i.e. failure and short read at every read index; " +
			"explicit-state search over one cipher object with ops Encrypt(p_i), Decrypt(c_j), Decrypt(bad_k) to closure, and two objects with the same key interleaved; Decrypt negatives: all lengths 0..96 and, per block-aligned length, the last block built with the reference cipher so that the recovered pad-length octet takes all 256 values. " +
			"Oracle: Decrypt(Encrypt(p)) = p; |c| = 16+16k with n < 16k <= n+256; reference CBC decryption of c[16:] under c[:16] gives p‖pad‖(16k−n−1); IV is made of octets the source served, IVs pairwise distinct across calls and objects on the non-repeating stream; >= 16 octets of the source consumed per encryption (cumulatively: a prefetching pool is allowed); source failure → error and no ciphertext; bad ciphertext → error, never a panic; every op on a used object behaves as on a fresh object. Keys and results as callers hold them: three objects made from one key buffer that is refilled between the NewCrypto calls each encrypt under the key they were given; six ciphertexts of one plaintext length (0..80, thorough 0..1200) stay unchanged when the caller appends to the others; Decrypt(Encrypt(Encrypt(p))) on one object returns the inner ciphertext. distinct_nontrivial = distinct (key, plaintext, environment) encryptions verified against the reference",
		Assumptions: []string{"the AES block function is a shared trusted primitive; CBC chaining, padding and IV handling are independent"},
		Run:         runC10,
		Replay: func(c *engine.Ctx, raw json.RawMessage) {
			var cs c10Case
			unmarshalCase(raw, &cs)
			switch cs.K {
			case "overlap":
				c10Overlap(c, cs)
			case "hooks":
				c10Hooks(c, cs)
			case "keysize":
				c10KeySize(c, cs.Desc, cs.KeyLen)
			case "results":
				c10Results(c, cs.Desc, cs.N)
			case "encrypt":
				c10Encrypt(c, cs, engine.NewReplayRun(cs.Env))
			case "encrypt-seq":
				c10EncryptSeq(c, cs, engine.NewReplayRun(cs.Env))
			case "negative":
				c10Negative(c, cs, engine.UnHex(cs.CT))
			case "history":
				c10History(c, cs.Desc, cs.Hist, cs.Op)
			}
		},
	})
}

// c10Hooks: the cipher object's exported Padding field (the caller supplies the pad octets, as the library's own
// known-answer tests do) with Iv left nil: the IV is still drawn from the random source for every call.
func c10Hooks(c *engine.Ctx, cs c10Case) {
	c.Evals++
	kl := ref.EncrKeyLens[cs.Desc]
	key := c10Key(kl, 2)
	cr, err := encr.StrToType(univ.EncrName(kl)).NewCrypto(key)
	obj, ok := cr.(*encr.EncrAesCbcCrypto)
	if err != nil || !ok {
		c.Count("cipher_object_has_no_padding_hook", 1)
		return
	}
	p := c10Plain(cs.N, 2)
	padLen := (16 - (cs.N+1)%16) % 16
	if cs.At > 0 {
		padLen += 16 * cs.At
	}
	obj.Padding = append(univ.Pat(padLen, 9), byte(padLen))
	for _, fail := range []bool{false, true} {
		menu := []int{engine.AnsA}
		var run *engine.Run
		if fail {
			menu = []int{engine.AnsA, engine.AnsErr}
			run = engine.NewReplayRun([]int{1})
		}
		seam := engine.NewSeam(run, menu)
		seam.Stream = 77
		restore := engine.Install(seam)
		var ct1, ct2 []byte
		var e1, e2 error
		pi := engine.Catch(func() {
			ct1, e1 = obj.Encrypt(append([]byte(nil), p...))
			if e1 == nil {
				ct2, e2 = obj.Encrypt(append([]byte(nil), p...))
			}
		})
		restore()
		if pi != nil {
			c.Violate(pi.Sig(), "Encrypt with caller-supplied padding panics: "+pi.Value, cs)
			return
		}
		if fail {
			if e1 == nil {
				c.Violate("hooks/source-failure-swallowed", fmt.Sprintf("caller-supplied padding, %d octets of plaintext: the random source fails at the first read and a ciphertext is returned", cs.N), cs)
				return
			}
			continue
		}
		if e1 != nil || e2 != nil {
			c.Violate("hooks/error", fmt.Sprintf("caller-supplied padding: %v %v", e1, e2), cs)
			return
		}
		served := seam.Served()
		if seam.Consumed() < 32 || !bytes.Contains(served, ct1[:16]) || !bytes.Contains(served, ct2[:16]) || bytes.Equal(ct1[:16], ct2[:16]) {
			c.Violate("hooks/iv-not-drawn-per-call", fmt.Sprintf("caller-supplied padding, Iv nil: two calls consumed %d octets of the source, IVs %x and %x", seam.Consumed(), ct1[:16], ct2[:16]), cs)
			return
		}
		pt := ref.CBCDecrypt(key, ct1[:16], ct1[16:])
		if len(pt) != cs.N+padLen+1 || !bytes.Equal(pt[:cs.N], p) || int(pt[len(pt)-1]) != padLen {
			c.Violate("hooks/not-textbook-cbc", fmt.Sprintf("caller-supplied padding of %d octets: reference decryption gives %d octets", padLen, len(pt)), cs)
			return
		}
		if back, derr := obj.Decrypt(append([]byte(nil), ct1...)); derr != nil || !bytes.Equal(back, p) {
			c.Violate("hooks/not-inverse", fmt.Sprintf("caller-supplied padding of %d octets (pad length octet %d): Decrypt gives (%d octets, %v)", padLen, padLen, len(back), derr), cs)
			return
		}
	}
	c.DistinctS(fmt.Sprint("hooks", cs.Desc, cs.N, cs.At))
}

// overlapReader lets other calls on the same cipher object run while one Encrypt is waiting for the random
// source (its read number At): the calls run on another goroutine and the outer read waits for them. If they
// cannot finish before the outer call does (an implementation that serialises calls with a lock), the wait is
// given up after a while and they complete afterwards; the verdict never depends on which of the two happened.
type overlapReader struct {
	mu    sync.Mutex
	seam  *engine.Seam
	at    int
	reads int
	armed bool
	body  func()
	done  chan struct{}
}

func (o *overlapReader) Read(p []byte) (int, error) {
	o.mu.Lock()
	fire := o.armed && o.reads == o.at
	if fire {
		o.armed = false
	}
	o.reads++
	o.mu.Unlock()
	if fire {
		o.done = make(chan struct{})
		go func() { defer close(o.done); o.body() }()
		select {
		case <-o.done:
		case <-time.After(1500 * time.Millisecond):
		}
	}
	o.mu.Lock()
	defer o.mu.Unlock()
	return o.seam.Read(p)
}

// c10Overlap: calls on one cipher object that overlap in time. The object is stateless between calls on the
// pinned tree; an implementation that parks per-call data (the IV in effect, a scratch block) in the object
// makes the inner calls use the outer call's data. No listed property promises that one cipher object may be
// used from two goroutines at once (C18 speaks about operations that share no key object), so interference is
// recorded as a note in the evidence, never as a violation; panics are still reported.
func c10Overlap(c *engine.Ctx, cs c10Case) {
	c.Evals++
	kl := ref.EncrKeyLens[cs.Desc]
	key := c10Key(kl, 2)
	et := encr.StrToType(univ.EncrName(kl))
	cr, err := et.NewCrypto(key)
	if err != nil {
		c.Violate("right-key-size-refused", errStr(err), cs)
		return
	}
	p0, p1, pB := c10Plain(cs.N, 2), c10Plain(cs.N+3, 2), c10Plain(cs.N+17, 2)
	seam := engine.NewSeam(nil, nil)
	seam.Stream = 900 + uint64(cs.At)
	or := &overlapReader{seam: seam, at: -1}
	restore := engine.Install(or)
	defer restore()
	var ct0, ct1, ctB, backD []byte
	var e0, e1, eB, eD error
	var ipi *engine.PanicInfo
	pi := engine.Catch(func() {
		ct0, e0 = cr.Encrypt(append([]byte(nil), p0...))
		if e0 != nil {
			return
		}
		or.mu.Lock()
		or.at, or.reads, or.armed = cs.At, 0, true
		or.body = func() {
			ipi = engine.Catch(func() {
				ctB, eB = cr.Encrypt(append([]byte(nil), pB...))
				backD, eD = cr.Decrypt(append([]byte(nil), ct0...))
			})
		}
		or.mu.Unlock()
		ct1, e1 = cr.Encrypt(append([]byte(nil), p1...))
		if or.done != nil {
			<-or.done
		}
	})
	if pi == nil {
		pi = ipi
	}
	if pi != nil {
		c.Violate(pi.Sig(), "overlapping calls on one cipher object panic: "+pi.Value, cs)
		return
	}
	if or.done == nil {
		c.Count("overlap_not_reached(fewer reads)", 1)
		return
	}
	if e0 != nil || e1 != nil || eB != nil || eD != nil {
		c.Note("overlapping calls on one cipher object interfere (not promised by any listed property): error")
		return
	}
	if !bytes.Equal(backD, p0) {
		c.Note("overlapping calls on one cipher object interfere (not promised by any listed property): decrypt-wrong")
		return
	}
	served := seam.Served()
	for i, x := range []struct {
		ct, p []byte
		who   string
	}{{ct1, p1, "outer"}, {ctB, pB, "inner"}} {
		_ = i
		if len(x.ct) < 32 || (len(x.ct)-16)%16 != 0 {
			c.Note("overlapping calls on one cipher object interfere (not promised by any listed property): size-law")
			return
		}
		pt := ref.CBCDecrypt(key, x.ct[:16], x.ct[16:])
		if len(pt) < len(x.p)+1 || !bytes.Equal(pt[:len(x.p)], x.p) || int(pt[len(pt)-1]) != len(pt)-len(x.p)-1 {
			c.Note("overlapping calls on one cipher object interfere (not promised by any listed property): not-textbook-cbc")
			return
		}
		if !bytes.Contains(served, x.ct[:16]) {
			c.Note("overlapping calls on one cipher object interfere (not promised by any listed property): iv-not-from-source")
			return
		}
	}
	if bytes.Equal(ct1[:16], ctB[:16]) || bytes.Equal(ct1[:16], ct0[:16]) || bytes.Equal(ctB[:16], ct0[:16]) {
		c.Note("overlapping calls on one cipher object interfere (not promised by any listed property): iv-repeats")
		return
	}
	c.DistinctS(fmt.Sprint("overlap", cs.Desc, cs.N, cs.At))
}

func runC10(c *engine.Ctx) {
	for d := 0; d < 3; d++ {
		for kl := 0; kl <= 64; kl++ {
			if c.Mine() {
				c10KeySize(c, d, kl)
			}
		}
	}
	maxN, bound := 80, 2
	if c.Thorough() {
		maxN, bound = 4096, 3
	}
	for d := 0; d < 3; d++ {
		for n := 0; n <= 80 || (c.Thorough() && n <= 1200); n++ {
			if c.Mine() {
				c10Results(c, d, n)
			}
		}
	}
	for d := 0; d < 3; d++ {
		for n := 0; n <= maxN; n++ {
			if !c.Mine() {
				continue
			}
			for kp := 0; kp < 3; kp++ {
				for pp := 0; pp < 3; pp++ {
					base := c10Case{K: "encrypt", Desc: d, KeyLen: ref.EncrKeyLens[d], N: n, Pat: kp*3 + pp}
					b := bound
					if n > 96 {
						b = 1
						if (kp+pp)%3 != 0 {
							b = 0
						}
					} else if kp+pp > 0 {
						b = 1
					}
					st := engine.Explore(b, 0, func(r *engine.Run) { c10Encrypt(c, base, r) }, func(r *engine.Run) {})
					c.Count("env_executions", st.Executions)
				}
			}
		}
	}
	// long call sequences on one object: 12 encryptions, failure / short read / degenerate content at every
	// read index, continuing after a failed call (a refill path that fails must not hand out old IVs)
	for d := 0; d < 3; d++ {
		for _, n := range []int{0, 1, 15, 16, 40} {
			if !c.Mine() {
				continue
			}
			base := c10Case{K: "encrypt-seq", Desc: d, KeyLen: ref.EncrKeyLens[d], N: n, Pat: 2*3 + 2}
			b := 1
			if c.Thorough() {
				b = 2
			}
			st := engine.Explore(b, 0, func(r *engine.Run) { c10EncryptSeq(c, base, r) }, func(r *engine.Run) {})
			c.Count("env_executions(sequences)", st.Executions)
		}
	}
	// the exported padding hook with Iv nil, minimal and longer paddings
	for d := 0; d < 3; d++ {
		for n := 0; n <= 40; n++ {
			for extra := 0; extra < 3; extra++ {
				if c.Mine() {
					c10Hooks(c, c10Case{K: "hooks", Desc: d, KeyLen: ref.EncrKeyLens[d], N: n, At: extra})
				}
			}
		}
	}
	// calls that overlap in time on one object
	for d := 0; d < 3; d++ {
		for _, n := range []int{0, 15, 16, 33} {
			for at := 0; at < 3; at++ {
				if c.Mine() {
					c10Overlap(c, c10Case{K: "overlap", Desc: d, KeyLen: ref.EncrKeyLens[d], N: n, At: at})
				}
			}
		}
	}
	// negatives
	for d := 0; d < 3; d++ {
		if !c.Mine() {
			continue
		}
		key := c10Key(ref.EncrKeyLens[d], 2)
		for l := 0; l <= 96; l++ {
			for pat := 0; pat < 3; pat++ {
				c10Negative(c, c10Case{K: "negative", Desc: d}, c10Plain(l, pat))
			}
		}
		for blocks := 1; blocks <= 5; blocks++ {
			for v := 0; v < 256; v++ {
				pt := univ.Pat(16*blocks, v)
				pt[len(pt)-1] = byte(v)
				iv := univ.Pat(16, 9+v)
				ct := append(append([]byte(nil), iv...), ref.CBCEncrypt(key, iv, pt)...)
				c10Negative(c, c10Case{K: "negative", Desc: d}, ct)
			}
		}
	}
	// histories on one object
	for d := 0; d < 3; d++ {
		if !c.Mine() {
			continue
		}
		nops := len(c10Ops(d))
		sops := make([]engine.SSOp, nops)
		for i := 0; i < nops; i++ {
			i := i
			sops[i] = engine.SSOp{Name: fmt.Sprint(i), Apply: func(o interface{}) string { return c10Apply(o.(*c10Obj), d, i) }}
		}
		depth := 3
		if c.Thorough() {
			depth = 4
		}
		res := engine.Search(func() interface{} { return c10Fresh(d) }, sops,
			func(o interface{}) uint64 { return engine.DumpHash(o.(*c10Obj).objs) },
			func(hist []int, oi int, obj interface{}, outcome string) bool {
				c.Evals++
				fresh := c10Fresh(d)
				want := c10Apply(fresh, d, oi)
				if outcome != want {
					c.Violate("history-dependent/"+c10Ops(d)[oi].name, fmt.Sprintf("AES-CBC-%d: op %s after history %v gives %s, on a fresh object %s", ref.EncrKeyLens[d]*8, c10Ops(d)[oi].name, hist, trs(outcome), trs(want)),
						c10Case{K: "history", Desc: d, Hist: hist, Op: oi})
				}
				return true
			}, depth, 5000)
		c.States += int64(res.States)
		c.Transitions += res.Transitions
		c.Count(fmt.Sprintf("history_states/aes%d", ref.EncrKeyLens[d]*8), int64(res.States))
		if res.Closed {
			c.Count("history_searches_closed", 1)
		} else {
			c.Count("history_searches_depth_bounded", 1)
		}
	}
}

// c10Results: how callers hold keys and results. (a) The caller keeps its keys in one buffer that it refills for
// the next SA: three objects are made from that buffer with three different contents, and afterwards each must
// still encrypt under the key it was given. (b) Ciphertexts are the caller's: appending to one (encryptMsg appends
// the checksum to what Encrypt returned) or overwriting it must not change another one, nested encryption
// Encrypt(Encrypt(p)) must decrypt layer by layer, and Decrypt results must not change when later calls run.
func c10Results(c *engine.Ctx, d, n int) {
	c.Evals++
	cs := c10Case{K: "results", Desc: d, KeyLen: ref.EncrKeyLens[d], N: n}
	kl := ref.EncrKeyLens[d]
	et := encr.StrToType(univ.EncrName(kl))
	seam := engine.NewSeam(nil, nil)
	seam.Stream = uint64(1000 + n)
	restore := engine.Install(seam)
	defer restore()
	buf := make([]byte, kl)
	var keys [][]byte
	var objs []ikeCrypto.IKECrypto
	for kp := 0; kp < 3; kp++ {
		k := univ.Pat(kl, 90+kp+n)
		keys = append(keys, k)
		copy(buf, k)
		var cr ikeCrypto.IKECrypto
		var err error
		if pi := engine.Catch(func() { cr, err = et.NewCrypto(buf) }); pi != nil || err != nil {
			c.Violate("right-key-size-refused", fmt.Sprintf("NewCrypto with a key in a reused caller buffer: %v %v", pi, err), cs)
			return
		}
		objs = append(objs, cr)
	}
	for i := range buf {
		buf[i] = 0xee
	}
	p := c10Plain(n, 2)
	type res struct{ ct, keep []byte }
	var rs []res
	pi := engine.Catch(func() {
		for i, cr := range objs {
			for rep := 0; rep < 2; rep++ {
				ct, err := cr.Encrypt(append([]byte(nil), p...))
				if err != nil {
					c.Violate("spurious-error", fmt.Sprintf("Encrypt(%d octets): %v", n, err), cs)
					return
				}
				pt := ref.CBCDecrypt(keys[i], ct[:16], ct[16:])
				if len(pt) < n+1 || !bytes.Equal(pt[:n], p) || int(pt[len(pt)-1]) != len(pt)-n-1 {
					c.Violate("not-textbook-cbc/key-from-reused-caller-buffer", fmt.Sprintf("object %d of 3 made from one key buffer that the caller refilled: its ciphertext is not AES-CBC-%d under the key it was given", i+1, kl*8), cs)
					return
				}
				rs = append(rs, res{ct, append([]byte(nil), ct...)})
			}
		}
	})
	if pi != nil {
		c.Violate(pi.Sig(), "Encrypt panics: "+pi.Value, cs)
		return
	}
	if len(rs) != 6 {
		return
	}
	// the caller appends to / overwrites the results it holds, oldest first; every other result stays what it was
	for i := range rs {
		grown := append(rs[i].ct, univ.Fill(40, 0xa5)...)
		_ = grown
		for j := range rs {
			if j != i && !bytes.Equal(rs[j].ct, rs[j].keep) {
				c.Violate("ciphertexts-share-memory", fmt.Sprintf("plaintext %d octets: appending 40 octets to ciphertext %d changes ciphertext %d (returned by another Encrypt call)", n, i+1, j+1), cs)
				return
			}
		}
	}
	// nested encryption on one object: Decrypt(Encrypt(Encrypt(p))) is the inner ciphertext
	var inner, innerKeep, outer, back, back2 []byte
	var err error
	if pi := engine.Catch(func() {
		if inner, err = objs[0].Encrypt(append([]byte(nil), p...)); err != nil {
			return
		}
		innerKeep = append([]byte(nil), inner...)
		if outer, err = objs[0].Encrypt(inner); err != nil {
			return
		}
		if back, err = objs[0].Decrypt(outer); err != nil {
			return
		}
		back2, err = objs[0].Decrypt(append([]byte(nil), back...))
	}); pi != nil {
		c.Violate(pi.Sig(), "nested Encrypt / Decrypt panics: "+pi.Value, cs)
		return
	}
	if err != nil || !bytes.Equal(back, innerKeep) || !bytes.Equal(back2, p) {
		c.Violate("not-inverse/nested", fmt.Sprintf("plaintext %d octets: Decrypt(Encrypt(Encrypt(p))) is not Encrypt(p) as it was returned (%v)", n, err), cs)
		return
	}
	c.Count("result_memory_cases", 1)
}

func c10KeySize(c *engine.Ctx, d, kl int) {
	c.Evals++
	cs := c10Case{K: "keysize", Desc: d, KeyLen: kl}
	et := encr.StrToType(univ.EncrName(ref.EncrKeyLens[d]))
	if et == nil {
		c.Violate("registry/encr", "descriptor missing", cs)
		return
	}
	var cr ikeCrypto.IKECrypto
	var err error
	if pi := engine.Catch(func() { cr, err = et.NewCrypto(c10Key(kl, 2)) }); pi != nil {
		c.Violate(pi.Sig(), "NewCrypto panics: "+pi.Value, cs)
		return
	}
	if kl == ref.EncrKeyLens[d] {
		if err != nil || cr == nil {
			c.Violate("right-key-size-refused", fmt.Sprintf("AES-CBC-%d refuses a %d-octet key: %v", ref.EncrKeyLens[d]*8, kl, err), cs)
		}
		return
	}
	if err == nil {
		c.Violate("wrong-key-size-accepted", fmt.Sprintf("AES-CBC-%d accepts a %d-octet key", ref.EncrKeyLens[d]*8, kl), cs)
		return
	}
	c.Count("wrong_key_sizes_refused", 1)
}

func c10Encrypt(c *engine.Ctx, base c10Case, r *engine.Run) {
	c.Evals++
	d := base.Desc
	kl := ref.EncrKeyLens[d]
	key := c10Key(kl, base.Pat/3)
	p := c10Plain(base.N, base.Pat%3)
	et := encr.StrToType(univ.EncrName(kl))
	cr1, e1 := et.NewCrypto(key)
	cr2, e2 := et.NewCrypto(append([]byte(nil), key...))
	mk := func() c10Case { x := base; x.Env = r.Choices(); return x }
	if e1 != nil || e2 != nil {
		c.Violate("right-key-size-refused", fmt.Sprint(e1, e2), mk())
		return
	}
	menu := []int{engine.AnsA, engine.AnsZero, engine.AnsFF, engine.AnsShort, engine.AnsErr}
	seam := engine.NewSeam(r, menu)
	restore := engine.Install(seam)
	var cts [][]byte
	var errs []error
	var consumed []int
	pi := engine.Catch(func() {
		for i, cr := range []ikeCrypto.IKECrypto{cr1, cr1, cr2} {
			_ = i
			before := seam.Consumed()
			ct, err := cr.Encrypt(append([]byte(nil), p...))
			cts = append(cts, ct)
			errs = append(errs, err)
			consumed = append(consumed, seam.Consumed()-before)
			if err != nil {
				break
			}
		}
	})
	restore()
	envs := strings.Join(seam.Answers(), ",")
	if pi != nil {
		c.Violate(pi.Sig(), fmt.Sprintf("Encrypt(%d octets) under [%s] panics: %s", base.N, envs, pi.Value), mk())
		return
	}
	failed := seam.Failed()
	if failed {
		c.Count("executions_with_injected_failure", 1)
		last := len(errs) - 1
		if errs[last] == nil {
			c.Violate("source-failure-swallowed", fmt.Sprintf("AES-CBC-%d Encrypt(%d octets): source answers [%s] but every call returned a ciphertext", kl*8, base.N, envs), mk())
			return
		}
		if cts[last] != nil {
			c.Violate("ciphertext-returned-with-error", fmt.Sprintf("source answers [%s]", envs), mk())
			return
		}
	}
	served := seam.Served()
	var ivs [][]byte
	for i, ct := range cts {
		if errs[i] != nil {
			if !failed {
				c.Violate("spurious-error", fmt.Sprintf("Encrypt(%d octets) under [%s]: %v", base.N, envs, errs[i]), mk())
				return
			}
			continue
		}
		n := base.N
		if len(ct) < 32 || (len(ct)-16)%16 != 0 || !(n < len(ct)-16 && len(ct)-16 <= n+256) {
			c.Violate("size-law", fmt.Sprintf("plaintext %d octets, ciphertext %d octets", n, len(ct)), mk())
			return
		}
		pt := ref.CBCDecrypt(key, ct[:16], ct[16:])
		k16 := len(pt)
		if !bytes.Equal(pt[:n], p) || int(pt[k16-1]) != k16-n-1 {
			c.Violate("not-textbook-cbc", fmt.Sprintf("plaintext %d octets: reference decryption gives %x… with final octet %d (want %d)", n, trunc(pt, 24), pt[k16-1], k16-n-1), mk())
			return
		}
		total := 0
		for _, x := range consumed[:i+1] {
			total += x
		}
		if total < 16*(i+1) {
			c.Violate("iv-not-drawn-per-call", fmt.Sprintf("%d encryptions consumed only %d octets of the random source", i+1, total), mk())
			return
		}
		if !bytes.Contains(served, ct[:16]) {
			c.Violate("iv-not-from-source", fmt.Sprintf("call %d: IV %x is not made of octets the source served", i+1, ct[:16]), mk())
			return
		}
		// inverse, on the producing object and on the other object with the same key
		for _, cr := range []ikeCrypto.IKECrypto{cr1, cr2} {
			var back []byte
			var derr error
			if pi := engine.Catch(func() { back, derr = cr.Decrypt(append([]byte(nil), ct...)) }); pi != nil {
				c.Violate(pi.Sig(), "Decrypt of own ciphertext panics: "+pi.Value, mk())
				return
			}
			if derr != nil || !bytes.Equal(back, p) {
				c.Violate("not-inverse", fmt.Sprintf("plaintext %d octets: Decrypt(Encrypt(p)) = (%d octets, %v)", n, len(back), derr), mk())
				return
			}
		}
		ivs = append(ivs, ct[:16])
	}
	if r.Deviations() == 0 {
		for i := range ivs {
			for j := i + 1; j < len(ivs); j++ {
				if bytes.Equal(ivs[i], ivs[j]) {
					c.Violate("iv-repeats", fmt.Sprintf("calls %d and %d (objects may differ) use the same IV on a non-repeating source", i+1, j+1), mk())
					return
				}
			}
		}
	}
	c.DistinctS(fmt.Sprint(base.Desc, base.N, base.Pat, envs))
	c.Sample("encrypt", map[string]interface{}{"aes": kl * 8, "plaintext_len": base.N, "answers": seam.Answers(), "ciphertext_len": len(cts[0])})
}

func c10Negative(c *engine.Ctx, cs c10Case, ct []byte) {
	c.Evals++
	kl := ref.EncrKeyLens[cs.Desc]
	key := c10Key(kl, 2)
	cr, err := encr.StrToType(univ.EncrName(kl)).NewCrypto(key)
	if err != nil {
		return
	}
	cs.CT = engine.Hex(ct)
	var pt []byte
	if pi := engine.Catch(func() { pt, err = cr.Decrypt(append([]byte(nil), ct...)) }); pi != nil {
		c.Violate(pi.Sig(), fmt.Sprintf("Decrypt of %d octets panics: %s", len(ct), pi.Value), cs)
		return
	}
	valid := len(ct) >= 32 && len(ct)%16 == 0
	var want []byte
	if valid {
		full := ref.CBCDecrypt(key, ct[:16], ct[16:])
		pl := int(full[len(full)-1])
		if pl+1 > len(full) {
			valid = false
		} else {
			want = full[:len(full)-1-pl]
		}
	}
	if !valid {
		if err == nil {
			cls := "impossible-pad-length"
			if len(ct) < 32 {
				cls = "too-short"
			} else if len(ct)%16 != 0 {
				cls = "misaligned"
			}
			c.Violate("bad-ciphertext-accepted/"+cls, fmt.Sprintf("Decrypt of %d octets returns %d octets without error", len(ct), len(pt)), cs)
			return
		}
		c.Count("bad_ciphertexts_refused", 1)
		return
	}
	if err != nil || !bytes.Equal(pt, want) {
		c.Violate("decrypt-differs-from-textbook", fmt.Sprintf("Decrypt of %d octets: (%x…, %v), reference gives %x…", len(ct), trunc(pt, 16), err, trunc(want, 16)), cs)
		return
	}
	c.Count("decryptions_matching_reference", 1)
}

// ---- histories on one cipher object ------------------------------------------

type c10Obj struct {
	objs []ikeCrypto.IKECrypto // two objects with the same key, used interleaved
}

type c10OpT struct {
	name string
	obj  int
	kind int // 0 encrypt, 1 decrypt
	data []byte
}

func c10Fresh(d int) *c10Obj {
	kl := ref.EncrKeyLens[d]
	et := encr.StrToType(univ.EncrName(kl))
	a, _ := et.NewCrypto(c10Key(kl, 2))
	b, _ := et.NewCrypto(c10Key(kl, 2))
	return &c10Obj{[]ikeCrypto.IKECrypto{a, b}}
}

var c10OpsCache = map[int][]c10OpT{}

func c10Ops(d int) []c10OpT {
	if o, ok := c10OpsCache[d]; ok {
		return o
	}
	kl := ref.EncrKeyLens[d]
	key := c10Key(kl, 2)
	good := func(n int) []byte {
		pt := append(c10Plain(n, 2), make([]byte, 16-n%16)...)
		pt[len(pt)-1] = byte(16 - n%16 - 1)
		iv := univ.Pat(16, n)
		return append(append([]byte(nil), iv...), ref.CBCEncrypt(key, iv, pt)...)
	}
	badpad := func() []byte {
		pt := univ.Pat(16, 1)
		pt[15] = 200
		iv := univ.Pat(16, 2)
		return append(append([]byte(nil), iv...), ref.CBCEncrypt(key, iv, pt)...)
	}
	ops := []c10OpT{
		{"Encrypt(empty)", 0, 0, nil}, {"Encrypt(15)", 0, 0, c10Plain(15, 2)}, {"Encrypt(16)", 0, 0, c10Plain(16, 0)}, {"Encrypt(40)@2", 1, 0, c10Plain(40, 1)},
		{"Decrypt(good5)", 0, 1, good(5)}, {"Decrypt(good32)@2", 1, 1, good(32)}, {"Decrypt(short)", 0, 1, univ.Pat(16, 3)}, {"Decrypt(misaligned)", 0, 1, univ.Pat(41, 4)},
		{"Decrypt(badpad)", 0, 1, badpad()}, {"Decrypt(empty)@2", 1, 1, nil},
	}
	c10OpsCache[d] = ops
	return ops
}

// c10Apply runs op oi under a fixed random stream per op (so that outcomes are comparable between
// a used and a fresh object) and returns a canonical outcome.
func c10Apply(o *c10Obj, d, oi int) string {
	op := c10Ops(d)[oi]
	seam := engine.NewSeam(nil, nil)
	seam.Stream = uint64(1000 + oi)
	restore := engine.Install(seam)
	defer restore()
	var out []byte
	var err error
	pi := engine.Catch(func() {
		if op.kind == 0 {
			out, err = o.objs[op.obj].Encrypt(append([]byte(nil), op.data...))
		} else {
			out, err = o.objs[op.obj].Decrypt(append([]byte(nil), op.data...))
		}
	})
	if pi != nil {
		return "panic " + pi.Sig()
	}
	if err != nil {
		return "error"
	}
	if op.kind == 0 {
		// behavioural outcome of an encryption: which IV octets were used is the implementation's business
		// (a prefetching pool is legitimate); what counts is a well-formed ciphertext of the plaintext
		kl := ref.EncrKeyLens[d]
		if len(out) < 32 || (len(out)-16)%16 != 0 {
			return fmt.Sprintf("malformed ciphertext of %d octets", len(out))
		}
		pt := ref.CBCDecrypt(c10Key(kl, 2), out[:16], out[16:])
		n := len(op.data)
		if !bytes.Equal(pt[:n], op.data) || int(pt[len(pt)-1]) != len(pt)-n-1 {
			return fmt.Sprintf("ciphertext of %d octets that does not decrypt to the plaintext", len(out))
		}
		return fmt.Sprintf("ciphertext %d octets, decrypts to the plaintext", len(out))
	}
	return fmt.Sprintf("%x", out)
}

func c10History(c *engine.Ctx, d int, hist []int, oi int) {
	o := c10Fresh(d)
	for _, h := range hist {
		c10Apply(o, d, h)
	}
	got := c10Apply(o, d, oi)
	want := c10Apply(c10Fresh(d), d, oi)
	if got != want {
		c.Violate("history-dependent/"+c10Ops(d)[oi].name, fmt.Sprintf("op %s after %v: %s vs fresh %s", c10Ops(d)[oi].name, hist, trs(got), trs(want)), c10Case{K: "history", Desc: d, Hist: hist, Op: oi})
	}
}

// c10EncryptSeq: 12 encryptions on one cipher object under the scripted source, continuing after errors.
func c10EncryptSeq(c *engine.Ctx, base c10Case, r *engine.Run) {
	c.Evals++
	kl := ref.EncrKeyLens[base.Desc]
	key := c10Key(kl, base.Pat/3)
	p := c10Plain(base.N, base.Pat%3)
	cr, err := encr.StrToType(univ.EncrName(kl)).NewCrypto(key)
	mk := func() c10Case { x := base; x.Env = r.Choices(); return x }
	if err != nil {
		return
	}
	seam := engine.NewSeam(r, []int{engine.AnsA, engine.AnsZero, engine.AnsShort, engine.AnsErr})
	seam.Horizon = 200
	restore := engine.Install(seam)
	type res struct {
		ct     []byte
		err    error
		failed bool
	}
	var rs []res
	pi := engine.Catch(func() {
		for i := 0; i < 12; i++ {
			fb := 0
			for _, rec := range seam.Log {
				if rec.Answer == engine.AnsErr {
					fb++
				}
			}
			ct, e := cr.Encrypt(append([]byte(nil), p...))
			fa := 0
			for _, rec := range seam.Log {
				if rec.Answer == engine.AnsErr {
					fa++
				}
			}
			rs = append(rs, res{ct, e, fa > fb})
		}
	})
	restore()
	envs := strings.Join(seam.Answers(), ",")
	if pi != nil {
		c.Violate(pi.Sig(), fmt.Sprintf("Encrypt sequence under [%s] panics: %s", envs, pi.Value), mk())
		return
	}
	served := seam.Served()
	zeroServed := false
	for _, rec := range seam.Log {
		zeroServed = zeroServed || rec.Answer == engine.AnsZero
	}
	ok := 0
	var ivs [][]byte
	for i, x := range rs {
		if x.failed && x.err == nil {
			c.Violate("source-failure-swallowed/sequence", fmt.Sprintf("call %d of 12 saw a failing read (answers [%s]) and still returned a ciphertext", i+1, envs), mk())
			return
		}
		if x.err != nil {
			if !x.failed {
				c.Violate("spurious-error/sequence", fmt.Sprintf("call %d of 12 fails although none of its reads failed (answers [%s]): %v", i+1, envs, x.err), mk())
				return
			}
			continue
		}
		ok++
		if len(x.ct) < 32 || !bytes.Contains(served, x.ct[:16]) {
			c.Violate("iv-not-from-source/sequence", fmt.Sprintf("call %d: IV is not made of octets the source served", i+1), mk())
			return
		}
		pt := ref.CBCDecrypt(key, x.ct[:16], x.ct[16:])
		if !bytes.Equal(pt[:len(p)], p) {
			c.Violate("not-textbook-cbc/sequence", fmt.Sprintf("call %d", i+1), mk())
			return
		}
		if !zeroServed {
			for j, iv := range ivs {
				if bytes.Equal(iv, x.ct[:16]) {
					c.Violate("iv-repeats/sequence", fmt.Sprintf("calls %d and %d on one object use the same IV (answers [%s])", j+1, i+1, envs), mk())
					return
				}
			}
		}
		ivs = append(ivs, x.ct[:16])
	}
	if seam.Consumed() < 16*ok {
		c.Violate("iv-not-drawn-per-call/sequence", fmt.Sprintf("%d successful encryptions consumed only %d octets of the random source", ok, seam.Consumed()), mk())
		return
	}
	c.DistinctS(fmt.Sprint("seq", base.Desc, base.N, envs))
}
