package checks

import (
	"bytes"
	"encoding/json"
	"fmt"
	"hash"

	"github.com/free5gc/ike/security"
	"github.com/free5gc/ike/security/dh"
	"github.com/free5gc/ike/security/encr"
	"github.com/free5gc/ike/security/esn"
	"github.com/free5gc/ike/security/integ"

	"verif/mc/engine"
	"verif/mc/ref"
	"verif/mc/univ"
)

// C08 — Child SA keying material follows RFC 7296 section 2.17; every derivation on
// one IKE SA object gives what a fresh copy gives.

type c08Case struct {
	PRF   int   `json:"prf"`
	Pat   int   `json:"pattern"`
	Hist  []int `json:"history"` // op indices applied before
	Op    int   `json:"op"`
	Depth int   `json:"depth"`
	Via   int   `json:"via,omitempty"` // how the IKE SA object came to be: 0 GenerateKeyForIKESA on algorithm descriptors; 1 security.NewIKESAKey (proposal + peer public value: the responder path, Diffie-Hellman included); 2 keyed twice; 3 only PrfInfo and Prf_d set
}

type c08Op struct {
	encrLen   int
	integIdx  int // -1: none
	nonce     []byte
	name      string
	callerPrf bool // not a derivation: the caller computes a prf(SK_d, x) of its own on the exported Prf_d object (Reset, Write, Sum) and leaves it as it is
	full      bool // the Child SA object carries everything a negotiated proposal carries (DH group, ESN): built through ToProposal / NewChildSAKeyByProposal when the proposal has an integrity transform, else filled in directly
}

func c08Ops() []c08Op {
	var ops []c08Op
	nonces := [][]byte{nil, {}, {0x42}, {0x43}, univ.Pat(32, 1), univ.Pat(32, 9), univ.Pat(64, 2), univ.Pat(65, 3)}
	for _, el := range ref.EncrKeyLens {
		for ii := -1; ii < 3; ii++ {
			for ni, n := range nonces {
				ops = append(ops, c08Op{encrLen: el, integIdx: ii, nonce: n, name: fmt.Sprintf("derive(aes%d,integ%d,nonce#%d)", el*8, ii, ni)})
			}
		}
	}
	for _, el := range ref.EncrKeyLens {
		for ii := -1; ii < 3; ii++ {
			for _, ni := range []int{2, 4} {
				ops = append(ops, c08Op{encrLen: el, integIdx: ii, nonce: nonces[ni], name: fmt.Sprintf("derive(aes%d,integ%d,nonce#%d,negotiated with DH group and ESN)", el*8, ii, ni), full: true})
			}
		}
	}
	ops = append(ops, c08Op{name: "caller computes prf(SK_d, x) on the exported Prf_d object (RFC 7296 2.18 rekey)", callerPrf: true})
	return ops
}

func c08ArenaIntact() bool { return c08ArenaBuf == nil || bytes.Equal(c08ArenaBuf, c08ArenaOrig) }

// c08Via selects how fresh IKE SA objects are built (see c08Case.Via).
var c08Via int

func c08Fresh(prfIdx, pat int) (*security.IKESAKey, []byte) {
	if !c08UseRefill {
		c08ArenaReset()
	}
	cs := c07Case{PRF: prfIdx, Integ: 1, Encr: 0, DH: 1}
	sa := infoSA(cs)
	nonce := univ.Pat(48, pat)
	if c08Via == 2 {
		// an object that was keyed before (other exchange material) and is keyed again
		if err := sa.GenerateKeyForIKESA(univ.Pat(40, pat+9), univ.Pat(256, pat+10), 3, 4); err != nil {
			panic(err)
		}
	}
	if c08Via == 3 {
		// the smallest object the derivation needs (as the library's own tests build it): PRF descriptor and the
		// keyed SK_d object, nothing else
		want := ref.DeriveIKE(ref.PRFs[prfIdx], ref.Integs[1], 16, nonce, univ.Pat(256, pat+1), 7, 9)
		return &security.IKESAKey{PrfInfo: sa.PrfInfo, Prf_d: sa.PrfInfo.Init(append([]byte(nil), want.SKd...))}, want.SKd
	}
	if c08Via == 1 {
		sa.DhInfo = dh.StrToType("DH_1024_BIT_MODP") // the smaller group: a fresh object is built for every transition
		prop, err := sa.ToProposal()
		if err != nil {
			panic(err)
		}
		seam := engine.NewSeam(nil, nil)
		seam.Stream = uint64(700 + pat)
		restore := engine.Install(seam)
		nsa, _, err := security.NewIKESAKey(prop, univ.Pat(128, pat+3), nonce, 7, 9)
		restore()
		if err != nil {
			panic(err)
		}
		// SK_d itself is C07's subject; here the Child SA keys are judged relative to the SK_d the object holds
		return nsa, append([]byte(nil), nsa.SK_d...)
	}
	secret := univ.Pat(256, pat+1)
	if err := sa.GenerateKeyForIKESA(nonce, secret, 7, 9); err != nil {
		panic(err)
	}
	want := ref.DeriveIKE(ref.PRFs[prfIdx], ref.Integs[1], 16, nonce, secret, 7, 9)
	return sa, want.SKd
}

// c08UseRefill selects the second caller model (one buffer per length, refilled in place before every call).
var c08UseRefill bool

// callerBuf models a caller that keeps one nonce buffer per length and refills it in place for every
// derivation (the library must not remember the caller's slice across calls).
var callerBuf = map[int][]byte{}

func inCallerBuffer(nonce []byte) []byte {
	if len(nonce) == 0 {
		return nonce
	}
	b, ok := callerBuf[len(nonce)]
	if !ok {
		b = make([]byte, len(nonce))
		callerBuf[len(nonce)] = b
	}
	copy(b, nonce)
	return b
}

// c08Arena models a caller that keeps all its nonces next to each other in one buffer (as in a received
// datagram) and hands windows of it to the library: window i has spare capacity reaching over the following
// nonces. The arena is written once; the library must not write to it.
var c08ArenaBuf []byte
var c08ArenaOrig []byte
var c08ArenaOff = map[string]int{}

func c08ArenaReset() {
	c08ArenaBuf = c08ArenaBuf[:0]
	for _, op := range c08Ops() {
		k := string(op.nonce)
		if _, ok := c08ArenaOff[k]; ok && len(c08ArenaBuf) > 0 {
			continue
		}
	}
	c08ArenaBuf = nil
	c08ArenaOff = map[string]int{}
	for _, op := range c08Ops() {
		k := string(op.nonce)
		if _, ok := c08ArenaOff[k]; ok || len(op.nonce) == 0 {
			continue
		}
		c08ArenaOff[k] = len(c08ArenaBuf)
		c08ArenaBuf = append(c08ArenaBuf, op.nonce...)
	}
	c08ArenaBuf = append(c08ArenaBuf, 0xEE, 0xEE, 0xEE, 0xEE) // sentinel tail
	c08ArenaOrig = append([]byte(nil), c08ArenaBuf...)
}

func c08Window(nonce []byte) []byte {
	if len(nonce) == 0 {
		return nonce
	}
	if c08ArenaBuf == nil {
		c08ArenaReset()
	}
	off, ok := c08ArenaOff[string(nonce)]
	if !ok {
		return inCallerBuffer(nonce)
	}
	return c08ArenaBuf[off : off+len(nonce)] // capacity extends over the following nonces
}

func c08Apply(sa *security.IKESAKey, op c08Op) (string, error) {
	if op.callerPrf {
		if sa.Prf_d == nil {
			return "caller-prf", nil
		}
		sa.Prf_d.Reset()
		sa.Prf_d.Write(univ.Pat(40, 77))
		sa.Prf_d.Sum(nil)
		return "caller-prf", nil
	}
	nonce := c08Window(op.nonce)
	if c08UseRefill {
		nonce = inCallerBuffer(op.nonce)
	}
	ch, err := c08Child(op)
	if err != nil {
		return "", err
	}
	if err := ch.GenerateKeyForChildSA(sa, nonce); err != nil {
		return "", err
	}
	return c08Keys(ch), nil
}

func c08Keys(ch *security.ChildSAKey) string {
	return fmt.Sprintf("ei=%x ai=%x er=%x ar=%x", ch.InitiatorToResponderEncryptionKey, ch.InitiatorToResponderIntegrityKey,
		ch.ResponderToInitiatorEncryptionKey, ch.ResponderToInitiatorIntegrityKey)
}

// c08Child builds the (un-keyed) Child SA object of an op.
func c08Child(op c08Op) (*security.ChildSAKey, error) {
	ch := &security.ChildSAKey{EncrKInfo: encr.StrToKType(univ.EncrName(op.encrLen))}
	if op.integIdx >= 0 {
		ch.IntegKInfo = integ.StrToKType(univ.IntegName(ref.Integs[op.integIdx]))
		if ch.IntegKInfo == nil {
			return nil, fmt.Errorf("registry lacks child integrity algorithm")
		}
	}
	if ch.EncrKInfo == nil {
		return nil, fmt.Errorf("registry lacks child encryption algorithm")
	}
	if op.full {
		ch.DhInfo = dh.StrToType("DH_2048_BIT_MODP")
		var err error
		if ch.EsnInfo, err = esn.StrToType("ESN_DISABLE"); err != nil {
			return nil, err
		}
		if op.integIdx >= 0 {
			prop, err := ch.ToProposal()
			if err != nil {
				return nil, err
			}
			if ch, err = security.NewChildSAKeyByProposal(prop); err != nil {
				return nil, err
			}
		}
	}
	return ch, nil
}

// c08Copies: the negotiated Child SA object is copied by value before it is keyed (one copy per Child SA: the first
// one and its rekeyed successor); the keys of the first copy stay what they were when the second copy is keyed.
func c08Copies(c *engine.Ctx, prfIdx int, ops []c08Op) {
	for oi, op := range ops {
		if op.callerPrf || op.nonce == nil {
			continue
		}
		c.Evals++
		c.Transitions += 2
		cs := c08Case{PRF: prfIdx, Pat: 1, Op: oi, Depth: -2}
		sa, skd := c08Fresh(prfIdx, 1)
		tmpl, err := c08Child(op)
		if err != nil {
			continue
		}
		a, b := *tmpl, *tmpl
		n2 := append(append([]byte(nil), op.nonce...), 0x5a)
		if err := a.GenerateKeyForChildSA(sa, append([]byte(nil), op.nonce...)); err != nil {
			continue
		}
		first := c08Keys(&a)
		if err := b.GenerateKeyForChildSA(sa, n2); err != nil {
			continue
		}
		op2 := op
		op2.nonce = n2
		if got, want := c08Keys(&a), c08Want(prfIdx, skd, op); got != first || got != want {
			c.Violate("keymat/value-copy-changed-by-later-derivation", fmt.Sprintf("prf %s, %s: two value copies of one un-keyed Child SA object are keyed one after the other; the first copy's keys read %s afterwards, RFC 7296 2.17 gives %s", ref.PRFs[prfIdx].Digest, op.name, trs(got), trs(want)), cs)
			return
		}
		if got, want := c08Keys(&b), c08Want(prfIdx, skd, op2); got != want {
			c.Violate("keymat/value-copy", fmt.Sprintf("prf %s, %s: second value copy gets %s, RFC 7296 2.17 gives %s", ref.PRFs[prfIdx].Digest, op.name, trs(got), trs(want)), cs)
			return
		}
		c.Count("value_copies_checked", 1)
	}
}

func c08Want(prfIdx int, skd []byte, op c08Op) string {
	if op.callerPrf {
		return "caller-prf"
	}
	il := 0
	if op.integIdx >= 0 {
		il = ref.Integs[op.integIdx].KeyLen
	}
	ei, ai, er, ar := ref.ChildKeys(ref.PRFs[prfIdx], skd, op.nonce, op.encrLen, il)
	return fmt.Sprintf("ei=%x ai=%x er=%x ar=%x", ei, ai, er, ar)
}

func init() {
	engine.Register(&engine.Check{
		ID:    "C08",
		Level: "model_checking",
		Rule: "explicit-state search over one real IKESAKey object per PRF and SK_d pattern: ops = derive(cfg, nonce) for 3 ESP key sizes × {no integrity, MD5-96, SHA1-96, SHA2-256-128} × nonces {nil, empty, 2 × 1 octet, 2 × 32 octets, 64, 65 octets} passed in a caller buffer that is refilled in place (96 ops); state = canonical dump of the whole SA object graph (hash states through their marshalled form); successors by replay from a fresh object; plus one op in which the caller computes a prf(SK_d, x) of its own on the exported Prf_d object and leaves it as it is; search to closure. Two value copies of every un-keyed Child SA object are keyed one after the other (the first copy's keys must stay). " +
			"Oracle on every transition: the four keys equal the reference slices of prf+(SK_d, Ni|Nr) in the order ei, ai, er, ar and equal what a freshly built copy of the SA yields. distinct_nontrivial = distinct (state, op) transitions whose keys were compared",
		Assumptions: []string{"closure of the concrete state space means the result holds for derivation histories of every length over this op alphabet (equal dumps have equal futures: the dump contains every field reachable from the object)"},
		Run:         runC08,
		Replay: func(c *engine.Ctx, raw json.RawMessage) {
			var cs c08Case
			unmarshalCase(raw, &cs)
			if cs.Depth == -2 {
				c08Copies(c, cs.PRF, c08Ops()[cs.Op:cs.Op+1])
				return
			}
			if cs.Op == -3 {
				c08NonceValues(c)
				return
			}
			if cs.Op == -2 {
				c08FailedThenRetry(c, cs.PRF, cs.Depth, c08Op{encrLen: cs.Hist[0], integIdx: cs.Hist[1], nonce: univ.Pat(32, 4), name: "derive"})
				return
			}
			if cs.Op < 0 {
				sa, skd := c08Fresh(cs.PRF, 1)
				op := c08Op{encrLen: cs.Hist[0], integIdx: cs.Hist[1], nonce: univ.Pat(cs.Depth, cs.Depth+cs.PRF), name: "sweep"}
				c08UseRefill = true
				got, err := c08Apply(sa, op)
				c08UseRefill = false
				if err != nil || got != c08Want(cs.PRF, skd, op) {
					c.Violate("keymat/nonce-length-sweep", "replayed", cs)
				}
				return
			}
			c08UseRefill = cs.Pat != 1
			c08Via = cs.Via
			defer func() { c08UseRefill = false; c08Via = 0 }()
			ops := c08Ops()
			sa, skd := c08Fresh(cs.PRF, cs.Pat)
			for _, h := range cs.Hist {
				c08Apply(sa, ops[h])
			}
			c08Check(c, cs, sa, skd, ops)
		},
	})
}

func c08Check(c *engine.Ctx, cs c08Case, sa *security.IKESAKey, skd []byte, ops []c08Op) {
	op := ops[cs.Op]
	var got string
	var err error
	if pi := engine.Catch(func() { got, err = c08Apply(sa, op) }); pi != nil {
		c.Violate(pi.Sig(), "child derivation panics: "+pi.Value, cs)
		return
	}
	if err != nil {
		c.Violate("derive-error", fmt.Sprintf("%s after %d derivations: %v", op.name, len(cs.Hist), err), cs)
		return
	}
	if !c08ArenaIntact() {
		c.Violate("caller-memory-modified", fmt.Sprintf("%s (after history %v): the library wrote into the caller's nonce buffer beyond or inside the slice it was given", op.name, cs.Hist), cs)
		return
	}
	want := c08Want(cs.PRF, skd, op)
	fresh, _ := c08Fresh(cs.PRF, cs.Pat)
	fgot, _ := c08Apply(fresh, op)
	if got != want {
		tag := "first-derivation"
		if len(cs.Hist) > 0 {
			tag = "after-history"
			if fgot == want {
				tag = "history-dependent"
			}
		}
		c.Violate("keymat/"+tag, fmt.Sprintf("prf %s, %s after history %v: got %s want %s", ref.PRFs[cs.PRF].Digest, op.name, cs.Hist, trs(got), trs(want)), cs)
		return
	}
	if fgot != got {
		c.Violate("keymat/differs-from-fresh-copy", fmt.Sprintf("%s after history %v", op.name, cs.Hist), cs)
	}
}

// failingHash lets the first n Write calls through and fails afterwards.
type failingHash struct {
	hash.Hash
	left int
}

func (f *failingHash) Write(p []byte) (int, error) {
	if f.left <= 0 {
		return 0, fmt.Errorf("injected prf failure")
	}
	f.left--
	return f.Hash.Write(p)
}

// c08FailedThenRetry: the IKE SA's keyed PRF object (a public field the caller may have wrapped: a hardware
// token, an instrumented hash) fails in round k of prf+; the derivation is refused. When the caller repairs the
// object and derives again with the same Child SA object, the keys are the RFC keys.
func c08FailedThenRetry(c *engine.Ctx, prfIdx, k int, op c08Op) {
	c.Evals++
	cs := c08Case{PRF: prfIdx, Pat: 1, Op: -2, Depth: k, Hist: []int{op.encrLen, op.integIdx}}
	sa, skd := c08Fresh(prfIdx, 1)
	good := sa.Prf_d
	sa.Prf_d = &failingHash{Hash: good, left: k}
	ch := &security.ChildSAKey{EncrKInfo: encr.StrToKType(univ.EncrName(op.encrLen))}
	if op.integIdx >= 0 {
		ch.IntegKInfo = integ.StrToKType(univ.IntegName(ref.Integs[op.integIdx]))
	}
	var err error
	if pi := engine.Catch(func() { err = ch.GenerateKeyForChildSA(sa, op.nonce) }); pi != nil {
		c.Count("failing_prf_object_panics(outside the listed properties)", 1)
		return
	}
	if err == nil {
		c.Count("prf_failure_not_reached", 1)
		return
	}
	sa.Prf_d = good
	if pi := engine.Catch(func() { err = ch.GenerateKeyForChildSA(sa, op.nonce) }); pi != nil || err != nil {
		c.Count("retry_refused", 1)
		return
	}
	got := fmt.Sprintf("ei=%x ai=%x er=%x ar=%x", ch.InitiatorToResponderEncryptionKey, ch.InitiatorToResponderIntegrityKey, ch.ResponderToInitiatorEncryptionKey, ch.ResponderToInitiatorIntegrityKey)
	if want := c08Want(prfIdx, skd, op); got != want {
		c.Violate("keymat/retry-after-refused-derivation", fmt.Sprintf("prf %s, %s: the prf object failed in round %d and the derivation was refused; the retry with the same Child SA object gives %s, RFC 7296 2.17 gives %s", ref.PRFs[prfIdx].Digest, op.name, k+1, trs(got), trs(want)), cs)
		return
	}
	c.Count("retries_after_refused_derivation", 1)
}

// c08NonceValues: nonce strings with particular contents — constant octets, two equal halves (Nr echoing Ni, a peer
// with a stuck random source), one half zero — for every PRF and four ESP configurations. RFC 7296 2.17 takes Ni | Nr
// as an octet string whatever it contains.
func c08NonceValues(c *engine.Ctx) {
	var ns [][]byte
	for _, n := range []int{2, 16, 32, 64, 96, 512} {
		half := univ.Pat(n/2, n)
		ns = append(ns, univ.Fill(n, 0), univ.Fill(n, 0xff), univ.Fill(n, 0x5a), append(append([]byte(nil), half...), half...),
			append(append([]byte(nil), half...), univ.Fill(n/2, 0)...), append(univ.Fill(n/2, 0), half...))
	}
	for prfIdx := 0; prfIdx < 3; prfIdx++ {
		if !c.Mine() {
			continue
		}
		for ni, nonce := range ns {
			for _, cfg := range [][2]int{{16, -1}, {32, 2}, {24, 0}, {16, 1}} {
				c.Evals++
				c.Transitions++
				sa, skd := c08Fresh(prfIdx, 1)
				op := c08Op{encrLen: cfg[0], integIdx: cfg[1], nonce: nonce, name: fmt.Sprintf("derive(aes%d,integ%d,nonce value #%d of %d octets)", cfg[0]*8, cfg[1], ni, len(nonce))}
				got, err := c08Apply(sa, op)
				if err != nil || got != c08Want(prfIdx, skd, op) {
					c.Violate("keymat/nonce-values", fmt.Sprintf("prf %s, %s (%x…) from a fresh SA: got %s (err %v), RFC 7296 2.17 gives %s", ref.PRFs[prfIdx].Digest, op.name, trunc(nonce, 16), trs(got), err, trs(c08Want(prfIdx, skd, op))),
						c08Case{PRF: prfIdx, Pat: 1, Op: -3, Depth: ni, Hist: []int{cfg[0], cfg[1]}})
					return
				}
				c.DistinctS("values" + got)
			}
		}
	}
}

// c08Sweep: every nonce length 0..300 from a fresh SA, all PRFs, four ESP configurations.
func c08Sweep(c *engine.Ctx) {
	for prfIdx := 0; prfIdx < 3; prfIdx++ {
		for n := 0; n <= 300; n++ {
			if !c.Mine() {
				continue
			}
			for _, cfg := range [][2]int{{16, -1}, {32, 2}, {24, 0}, {16, 1}} {
				c.Evals++
				c.Transitions++
				sa, skd := c08Fresh(prfIdx, 1)
				op := c08Op{encrLen: cfg[0], integIdx: cfg[1], nonce: univ.Pat(n, n+prfIdx), name: fmt.Sprintf("derive(aes%d,integ%d,nonce %d octets)", cfg[0]*8, cfg[1], n)}
				c08UseRefill = true
				got, err := c08Apply(sa, op)
				c08UseRefill = false
				if err != nil || got != c08Want(prfIdx, skd, op) {
					c.Violate("keymat/nonce-length-sweep", fmt.Sprintf("prf %s, %s from a fresh SA: got %s (err %v), RFC 7296 2.17 gives %s", ref.PRFs[prfIdx].Digest, op.name, trs(got), err, trs(c08Want(prfIdx, skd, op))),
						c08Case{PRF: prfIdx, Pat: 1, Op: -1, Depth: n, Hist: []int{cfg[0], cfg[1]}})
					return
				}
				c.DistinctS("sweep" + got)
			}
		}
	}
}

func runC08(c *engine.Ctx) {
	c08NonceValues(c)
	c08Sweep(c)
	for prfIdx := 0; prfIdx < 3; prfIdx++ {
		for k := 0; k < 8; k++ {
			if !c.Mine() {
				continue
			}
			for _, cfg := range [][2]int{{32, 1}, {16, -1}, {32, 2}, {24, 0}} {
				c08FailedThenRetry(c, prfIdx, k, c08Op{encrLen: cfg[0], integIdx: cfg[1], nonce: univ.Pat(32, 4), name: fmt.Sprintf("derive(aes%d,integ%d)", cfg[0]*8, cfg[1])})
			}
		}
	}
	ops := c08Ops()
	if err := engine.SnapshotSelfTest(); err != nil {
		panic(err)
	}
	for prfIdx := 0; prfIdx < 3; prfIdx++ {
		if c.Mine() {
			c08Copies(c, prfIdx, ops)
		}
	}
	for prfIdx := 0; prfIdx < 3; prfIdx++ {
		for pi, pat := range []int{1, 2 + int(c.Seed%5), 1, 1, 1} {
			if !c.Mine() {
				continue
			}
			c08Via = 0
			if pi >= 2 {
				c08Via = pi - 1 // 1: the IKE SA comes from NewIKESAKey; 2: keyed twice; 3: only PrfInfo + Prf_d set
			}
			via := c08Via
			c08UseRefill = pi == 1 // caller model: adjacent windows of one arena / one buffer per length refilled in place
			var skd []byte
			sops := make([]engine.SSOp, len(ops))
			for i := range ops {
				op := ops[i]
				sops[i] = engine.SSOp{Name: op.name, Apply: func(o interface{}) string {
					s, err := c08Apply(o.(*security.IKESAKey), op)
					if err != nil {
						return "error: " + err.Error()
					}
					return s
				}}
			}
			_, skd = c08Fresh(prfIdx, pat)
			maxDepth := 0
			res := engine.Search(
				func() interface{} { sa, _ := c08Fresh(prfIdx, pat); return sa },
				sops,
				func(o interface{}) uint64 { return engine.DumpHash(o) },
				func(hist []int, oi int, obj interface{}, outcome string) bool {
					c.Evals++
					cs := c08Case{PRF: prfIdx, Pat: pat, Hist: hist, Op: oi, Depth: len(hist), Via: via}
					want := c08Want(prfIdx, skd, ops[oi])
					if outcome != want || !c08ArenaIntact() {
						// re-run through the checking path to classify and record
						sa, _ := c08Fresh(prfIdx, pat)
						for _, h := range hist {
							c08Apply(sa, ops[h])
						}
						c08Check(c, cs, sa, skd, ops)
						if len(c.Violations) == 0 {
							c.Violate("keymat/outcome-mismatch", fmt.Sprintf("%s: %s vs %s", ops[oi].name, trs(outcome), trs(want)), cs)
						}
					} else {
						c.Distinct(engine.Hash64([]byte(outcome), []byte(fmt.Sprint(prfIdx, pat, hist, oi))))
					}
					if len(hist) == 1 {
						c.Sample("transition", map[string]interface{}{"prf": ref.PRFs[prfIdx].Digest, "history": []string{ops[hist[0]].name}, "op": ops[oi].name, "keys": trs(outcome)})
					}
					return true
				}, maxDepth, 3000)
			c.States += int64(res.States)
			c.Transitions += res.Transitions
			c.Traces += res.Transitions
			c.Count(fmt.Sprintf("prf=%s/pattern=%d states", ref.PRFs[prfIdx].Digest, pat), int64(res.States))
			c.Count("bfs_depth_max", int64(res.Depth))
			if !res.Closed {
				c.Cap(fmt.Sprintf("state space of prf %s did not close within %d states (depth %d completed)", ref.PRFs[prfIdx].Digest, res.States, res.Depth))
			} else {
				c.Count("closed_searches", 1)
			}
		}
	}
	c08Via = 0
	c08UseRefill = false
	_ = bytes.Equal
}
