// Package checks holds one decision procedure per property C01..C20.
package checks

import (
	"encoding/json"
	"strings"

	"github.com/free5gc/ike/message"

	"verif/mc/engine"
	"verif/mc/ref"
	"verif/mc/univ"
)

// dim strips the swept value from a case name ("SA.spilen=248" -> "SA.spilen").
func dim(name string) string {
	name = strings.TrimSpace(name)
	if i := strings.IndexByte(name, '='); i >= 0 {
		return name[:i]
	}
	return name
}

// kinds lists the payload kinds of a descriptor ("SA+KE+Nonce").
func kinds(ps []ref.Payload) string {
	if len(ps) == 0 {
		return "(empty)"
	}
	var s []string
	for _, p := range ps {
		s = append(s, ref.Name(p.T))
	}
	return strings.Join(s, "+")
}

func unmarshalCase(raw json.RawMessage, v interface{}) {
	if err := json.Unmarshal(raw, v); err != nil {
		panic("bad replay case: " + err.Error())
	}
}

// encodeLib builds the library message for m and encodes it. stage tells where it failed.
func encodeLib(m ref.Msg) (lm *message.IKEMessage, b []byte, stage string, err error, pi *engine.PanicInfo) {
	pi = engine.Catch(func() { lm, err = univ.Build(m) })
	if pi != nil || err != nil {
		return nil, nil, "build", err, pi
	}
	pi = engine.Catch(func() { b, err = lm.Encode() })
	if pi != nil || err != nil {
		return lm, nil, "encode", err, pi
	}
	return lm, b, "", nil, nil
}

func decodeLib(b []byte) (lm *message.IKEMessage, err error, pi *engine.PanicInfo) {
	lm = new(message.IKEMessage)
	pi = engine.Catch(func() { err = lm.Decode(b) })
	return
}

// culprit names the first payload of m that misbehaves on its own under f
// (used to give multi-payload failures a specific, stable signature).
func culprit(m ref.Msg, bad func(ref.Msg) bool) string {
	for _, p := range m.P {
		if bad(ref.Msg{H: m.H, P: []ref.Payload{p}}) {
			return ref.Name(p.T)
		}
	}
	return kinds(m.P)
}

func errStr(err error) string {
	if err == nil {
		return "<nil>"
	}
	s := err.Error()
	if i := strings.IndexByte(s, '\n'); i >= 0 {
		s = s[:i]
	}
	if len(s) > 200 {
		s = s[:200]
	}
	return s
}

// sharedCapacity reports two byte-slice fields reachable from v (pass a pointer) whose memory, spare capacity
// included, overlaps: a non-mutating append to one of them by the holder would overwrite the other.
func sharedCapacity(v interface{}) (engine.Region, engine.Region, bool) {
	rs := engine.Regions(v)
	for i := 0; i < len(rs); i++ {
		for j := i + 1; j < len(rs); j++ {
			a, b := rs[i], rs[j]
			if a.Cap == 0 || b.Cap == 0 || (a.Base == b.Base && a.Path == b.Path) {
				continue
			}
			if a.Base < b.Base+uintptr(b.Cap) && b.Base < a.Base+uintptr(a.Cap) {
				return a, b, true
			}
		}
	}
	return engine.Region{}, engine.Region{}, false
}
