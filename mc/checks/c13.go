package checks

import (
	"encoding/json"
	"fmt"

	ike "github.com/free5gc/ike"
	"github.com/free5gc/ike/message"

	"verif/mc/engine"
	"verif/mc/ref"
	"verif/mc/univ"
)

// C13 — unsupported payloads: skipped when not critical, message rejected when critical.

type c13Case struct {
	Name     string  `json:"name"`
	M        ref.Msg `json:"m"`    // the message without insertions
	Pos      []int   `json:"pos"`  // insertion positions (index in the original list), ascending
	Type     uint8   `json:"type"` // inserted type code
	Len      int     `json:"len"`
	Content  int     `json:"content"` // 0: 0x00, 1: 0xFF, 2: looks like a valid payload of another type
	Critical bool    `json:"critical"`
	Resv     bool    `json:"reserved_bits"`
	InSK     bool    `json:"inside_sk"`
	OuterSK  bool    `json:"before_sk"`               // the insertion sits in the cleartext outer chain in front of the SK payload
	CritImpl int     `json:"critical_on_implemented"` // -1 or index of an implemented payload carrying the critical flag
	CritMask int     `json:"critical_mask,omitempty"` // > 0: bit i set = the i-th insertion carries the critical flag (Critical is ignored); insertion i has type Type+i
}

func c13Body(n, content int) []byte {
	switch content {
	case 0:
		return univ.Fill(n, 0)
	case 1:
		return univ.Fill(n, 0xff)
	}
	// a valid Notify body followed by a generic header that claims a long payload (a trap for a
	// walker that looks inside unsupported payloads)
	b := append([]byte{3, 0, 0x40, 0x04}, []byte{41, 0, 0xff, 0xf0}...)
	for len(b) < n {
		b = append(b, 33, 0x80, 0, 8)
	}
	return b[:n]
}

func init() {
	engine.Register(&engine.Check{
		ID:    "C13",
		Level: "exploration",
		Rule: "base messages (alphabet singles and pairs) × insertion positions (front, every middle slot, end, two insertions) × all 240 unsupported type codes 1..32, 49..255 × body lengths {0..8,255,256,1020..1024} (thorough: 0..64 and the boundary values on every base, all 0..1024 on every 16th base) × contents {0x00, 0xFF, look-alike of another payload} × critical flag × reserved generic-header bits, built by the independent encoder so the chain is relinked independently; also inside an SK plaintext and with the critical flag on implemented payloads. " +
			"Oracle: critical clear → decodes exactly as the message without the insertions; critical set on an unsupported type → error. distinct_nontrivial = distinct datagrams with an insertion and >= 1 supported payload that decoded",
		Run: runC13,
		Replay: func(c *engine.Ctx, raw json.RawMessage) {
			var cs c13Case
			unmarshalCase(raw, &cs)
			evalC13(c, cs)
		},
	})
}

func runC13(c *engine.Ctx) {
	var bases []struct {
		name string
		m    ref.Msg
	}
	al := univ.Alphabet()
	for i, a := range al {
		bases = append(bases, struct {
			name string
			m    ref.Msg
		}{a.Name, ref.Msg{H: univ.BaseHdr, P: []ref.Payload{a.P}}})
		b := al[(i*7+3)%len(al)]
		d := al[(i*11+5)%len(al)]
		bases = append(bases, struct {
			name string
			m    ref.Msg
		}{a.Name + " " + b.Name + " " + d.Name, ref.Msg{H: univ.BaseHdr, P: []ref.Payload{a.P, b.P, d.P}}})
	}
	bases = append(bases, struct {
		name string
		m    ref.Msg
	}{"(empty)", ref.Msg{H: univ.BaseHdr}})
	// requests and responses of every exchange, from either end: the header of base i takes the flags and the exchange
	// type of its index (the rule for unsupported payloads is the same for all of them)
	for i := range bases {
		bases[i].m.H.Flags = []uint8{0x08, 0x20, 0x00, 0x28, 0x30, 0x18}[i%6]
		bases[i].m.H.Exch = []uint8{35, 34, 36, 37, 43}[i%5]
	}
	lens := []int{0, 1, 2, 3, 4, 5, 6, 7, 8, 255, 256, 1020, 1021, 1022, 1023, 1024}
	var allLens []int
	for i := 0; i <= 1024; i++ {
		allLens = append(allLens, i)
	}
	if c.Thorough() {
		lens = nil
		for i := 0; i <= 64; i++ {
			lens = append(lens, i)
		}
		lens = append(lens, 255, 256, 1020, 1021, 1022, 1023, 1024)
	}
	var types []uint8
	for t := 1; t <= 255; t++ {
		if t <= 32 || t >= 49 {
			types = append(types, uint8(t))
		}
	}
	// runs of adjacent unsupported payloads with mixed critical flags (a walker that follows a run of skipped
	// payloads in one go must still look at every critical flag)
	for bi, base := range bases {
		if bi%3 != 0 && !c.Thorough() {
			continue
		}
		n := len(base.m.P)
		for _, p := range []int{0, n / 2, n} {
			for run := 2; run <= 3; run++ {
				pos := make([]int, run)
				for i := range pos {
					pos[i] = p
				}
				for mask := 0; mask < 1<<uint(run); mask++ {
					if !c.Mine() {
						continue
					}
					for _, t := range []uint8{1, 29, 49, 53, 200, 253} { // t, t+1, t+2 are all unsupported type codes
						for _, l := range []int{0, 1, 4, 9} {
							cs := c13Case{Name: base.name, M: base.m, Pos: pos, Type: t, Len: l, Content: (l + int(t)) % 3, CritImpl: -1, CritMask: mask}
							if mask == 0 {
								cs.CritMask = 0
							}
							evalC13(c, cs)
							if bi%9 == 0 && mask != 0 {
								cs.InSK = true
								evalC13(c, cs)
							}
						}
					}
				}
			}
		}
	}
	for bi, base := range bases {
		n := len(base.m.P)
		var poss [][]int
		for p := 0; p <= n; p++ {
			poss = append(poss, []int{p})
		}
		poss = append(poss, []int{0, n})
		if n >= 2 {
			poss = append(poss, []int{1, 1})
		}
		fewTypes := []uint8{1, 2, 31, 32, 49, 50, 64, 127, 128, 129, 200, 254, 255}
		for _, pos := range poss {
			ts := types
			if !c.Thorough() && bi%8 != 0 {
				ts = fewTypes // all 240 codes on every 8th base message (all positions), a boundary subset elsewhere
			}
			for _, t := range ts {
				if !c.Mine() {
					continue
				}
				ll := lens
				if c.Thorough() && bi%16 == 0 {
					ll = allLens // every body length 0..1024 on every 16th base message
				}
				for li, l := range ll {
					full := l <= 4 || (c.Thorough() && l%97 == 0)
					for content := 0; content < 3; content++ {
						for _, crit := range []bool{false, true} {
							for _, resv := range []bool{false, true} {
								if !full && !((content == (li+int(t))%3) && resv == (li%2 == 0)) {
									continue
								}
								evalC13(c, c13Case{Name: base.name, M: base.m, Pos: pos, Type: t, Len: l, Content: content, Critical: crit, Resv: resv, CritImpl: -1})
							}
						}
					}
				}
				if bi%9 == 0 && len(pos) == 1 && pos[0] == 0 {
					evalC13(c, c13Case{Name: base.name, M: base.m, Pos: pos, Type: t, Len: 5, Content: 2, OuterSK: true, CritImpl: -1})
					evalC13(c, c13Case{Name: base.name, M: base.m, Pos: pos, Type: t, Len: 0, Content: 0, Resv: true, OuterSK: true, CritImpl: -1})
					evalC13(c, c13Case{Name: base.name, M: base.m, Pos: pos, Type: t, Len: 9, Content: 1, Critical: true, OuterSK: true, CritImpl: -1})
				}
				if bi%9 == 0 {
					evalC13(c, c13Case{Name: base.name, M: base.m, Pos: pos, Type: t, Len: 5, Content: 2, InSK: true, CritImpl: -1})
					evalC13(c, c13Case{Name: base.name, M: base.m, Pos: pos, Type: t, Len: 5, Content: 2, Critical: true, InSK: true, CritImpl: -1})
				}
			}
		}
		if c.Mine() {
			for i := 0; i < n; i++ {
				evalC13(c, c13Case{Name: base.name, M: base.m, Pos: nil, Type: 0, CritImpl: i})
				// the critical flag on an implemented payload together with unsupported payloads before / behind it:
				// the flag belongs to its own payload only
				for p := 0; p <= n; p++ {
					for _, t := range []uint8{1, 49, 200} {
						evalC13(c, c13Case{Name: base.name, M: base.m, Pos: []int{p}, Type: t, Len: 3, Content: 1, CritImpl: i})
						evalC13(c, c13Case{Name: base.name, M: base.m, Pos: []int{p}, Type: t, Len: 0, Content: 0, Critical: true, CritImpl: i})
						if bi%9 == 0 {
							evalC13(c, c13Case{Name: base.name, M: base.m, Pos: []int{p}, Type: t, Len: 3, Content: 1, CritImpl: i, InSK: true})
						}
					}
				}
			}
		}
	}
}

func evalC13(c *engine.Ctx, cs c13Case) {
	c.Evals++
	c.Transitions++
	m := cs.M
	var with ref.Msg
	with.H = m.H
	var lib ref.Lib
	ins := ref.Payload{T: cs.Type, Data: c13Body(cs.Len, cs.Content)}
	pi := 0
	anyCritical := cs.Critical
	for i := 0; i <= len(m.P); i++ {
		for pi < len(cs.Pos) && cs.Pos[pi] == i {
			crit := cs.Critical
			if cs.CritMask > 0 {
				crit = cs.CritMask&(1<<uint(pi)) != 0
				anyCritical = anyCritical || crit
				ins = ref.Payload{T: cs.Type + uint8(pi), Data: c13Body(cs.Len+pi, cs.Content)}
			}
			if crit {
				lib.Critical |= 1 << uint(len(with.P))
			}
			if cs.Resv {
				lib.PayRes |= 1 << uint(len(with.P))
			}
			with.P = append(with.P, ins)
			pi++
		}
		if i < len(m.P) {
			if cs.CritImpl == i {
				lib.Critical |= 1 << uint(len(with.P))
			}
			with.P = append(with.P, m.P[i])
		}
	}
	var got *message.IKEMessage
	var derr error
	var pinfo *engine.PanicInfo
	var wire []byte
	if cs.OuterSK {
		ks := univ.MakeKeySet(4, 2, 2)
		ske, ska := ks.DirKeys(true)
		_, inner, err := ref.EncodeChain(m.P, ref.Lib{})
		if err != nil {
			return
		}
		pad := (16 - (len(inner)+1)%16) % 16
		var ol ref.Lib
		if cs.Critical {
			ol.Critical = 1
		}
		if cs.Resv {
			ol.PayRes = 1
		}
		wire, err = ref.ProtectOuter(ks.Suite, ske, ska, m, ref.Lib{}, univ.Pat(16, 1), univ.Pat(pad, 2), []ref.Payload{ins}, ol)
		if err != nil {
			return
		}
		sa, err := univ.NewSA(ks)
		if err != nil {
			c.Violate("sa-construction", errStr(err), cs)
			return
		}
		pinfo = engine.Catch(func() { got, derr = ike.DecodeDecrypt(wire, nil, sa, message.Role_Responder) })
	} else if cs.InSK {
		ks := univ.MakeKeySet(4, 2, 2)
		ske, ska := ks.DirKeys(true)
		_, inner, err := ref.EncodeChain(with.P, lib)
		if err != nil {
			return
		}
		pad := (16 - (len(inner)+1)%16) % 16
		wire, err = ref.Protect(ks.Suite, ske, ska, with, lib, univ.Pat(16, 1), univ.Pat(pad, 2))
		if err != nil {
			return
		}
		sa, err := univ.NewSA(ks)
		if err != nil {
			c.Violate("sa-construction", errStr(err), cs)
			return
		}
		pinfo = engine.Catch(func() { got, derr = ike.DecodeDecrypt(wire, nil, sa, message.Role_Responder) })
	} else {
		var err error
		wire, err = ref.Encode(with, lib)
		if err != nil {
			c.Count("reference_encoder_refused", 1)
			return
		}
		got, derr, pinfo = decodeLib(wire)
	}
	c.Traces++
	where := "plain"
	if cs.InSK {
		where = "inside-sk"
	}
	if cs.OuterSK {
		where = "before-sk"
	}
	posClass := "front"
	if len(cs.Pos) > 1 {
		posClass = "multiple"
	} else if len(cs.Pos) == 1 && cs.Pos[0] == len(m.P) && len(m.P) > 0 {
		posClass = "end"
	} else if len(cs.Pos) == 1 && cs.Pos[0] > 0 {
		posClass = "middle"
	}
	desc := fmt.Sprintf("%s + type %d len %d content %d critical=%v reserved=%v at %v (%s)", cs.Name, cs.Type, cs.Len, cs.Content, cs.Critical, cs.Resv, cs.Pos, where)
	if pinfo != nil {
		c.Violate(pinfo.Sig(), desc+": panics: "+pinfo.Value, cs)
		return
	}
	if cs.CritMask > 0 {
		posClass = fmt.Sprintf("run-of-%d/mask-%b", len(cs.Pos), cs.CritMask)
	}
	if anyCritical && len(cs.Pos) > 0 {
		if derr == nil {
			c.Violate("critical-unsupported-accepted/"+where+"/"+posClass, desc+": decoded without error", cs)
		} else {
			c.Count("critical_rejected", 1)
		}
		return
	}
	if derr != nil {
		c.Violate("noncritical-rejected/"+where+"/"+posClass, desc+": "+errStr(derr), cs)
		return
	}
	g := univ.Project(got)
	if g.Canon() != m.Canon() {
		d := "header"
		if g.H == m.H {
			d = ref.FirstDiff(m.P, g.P)
		}
		tag := "skip-changes-message"
		if cs.CritImpl >= 0 {
			tag = "critical-on-implemented"
		}
		c.Violate(tag+"/"+where+"/"+posClass+"/"+d, desc+": got "+trs(g.Canon())+" want "+trs(m.Canon()), cs)
		return
	}
	// a receiver that parses the header once and hands the same header object to DecodeDecrypt for every attempt
	// (a retransmission, a second look after a key became available): the same datagram gives the same message again
	if !cs.InSK && !cs.OuterSK {
		if hdr, herr := message.ParseHeader(wire); herr == nil {
			var g1, g2 *message.IKEMessage
			var e1, e2 error
			if pi := engine.Catch(func() {
				g1, e1 = ike.DecodeDecrypt(wire, hdr, nil, message.Role_Responder)
				g2, e2 = ike.DecodeDecrypt(wire, hdr, nil, message.Role_Responder)
			}); pi != nil {
				c.Violate(pi.Sig(), desc+": DecodeDecrypt with a pre-parsed header panics: "+pi.Value, cs)
				return
			}
			if e1 != nil || e2 != nil || g1 == nil || g2 == nil || univ.Project(g1).Canon() != m.Canon() || univ.Project(g2).Canon() != m.Canon() {
				c.Violate("skip-changes-message/"+where+"/"+posClass+"/header-object-used-twice", fmt.Sprintf("%s: decoded twice with one pre-parsed header object: first (%v) %s, second (%v) %s", desc, e1, trs(canonOrNil(g1)), e2, trs(canonOrNil(g2))), cs)
				return
			}
		}
	}
	if len(m.P) > 0 {
		c.Distinct(engine.Hash64(wire))
	}
	c.Count("skipped_ok", 1)
	c.Sample(posClass+"/"+where, map[string]interface{}{"base": cs.Name, "type": cs.Type, "len": cs.Len, "pos": cs.Pos, "wire": engine.Hex(trunc(wire, 80))})
}

func canonOrNil(m *message.IKEMessage) string {
	if m == nil {
		return "<nil>"
	}
	return univ.Project(m).Canon()
}
