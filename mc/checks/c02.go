package checks

import (
	"bytes"
	"encoding/json"
	"fmt"
	"hash"

	ike "github.com/free5gc/ike"
	"github.com/free5gc/ike/message"
	"github.com/free5gc/ike/security"
	ikeCrypto "github.com/free5gc/ike/security/IKECrypto"

	"verif/mc/engine"
	"verif/mc/ref"
	"verif/mc/univ"
)

// C02 — tampered, truncated, spliced, cross-key or reflected SK messages are rejected,
// and ciphertext never reaches the cipher before the checksum is verified.

type spyLog struct{ ev []string }

type spyCrypto struct {
	inner ikeCrypto.IKECrypto
	name  string
	log   *spyLog
}

func (s *spyCrypto) Encrypt(p []byte) ([]byte, error) {
	s.log.ev = append(s.log.ev, s.name+".Encrypt")
	return s.inner.Encrypt(p)
}
func (s *spyCrypto) Decrypt(c []byte) ([]byte, error) {
	s.log.ev = append(s.log.ev, s.name+".Decrypt")
	return s.inner.Decrypt(c)
}

type spyHash struct {
	hash.Hash
	name string
	log  *spyLog
}

func (s *spyHash) Write(p []byte) (int, error) {
	s.log.ev = append(s.log.ev, s.name+".Write")
	return s.Hash.Write(p)
}
func (s *spyHash) Sum(b []byte) []byte {
	s.log.ev = append(s.log.ev, s.name+".Sum")
	return s.Hash.Sum(b)
}
func (s *spyHash) Reset() {
	s.log.ev = append(s.log.ev, s.name+".Reset")
	s.Hash.Reset()
}

func spySA(ks univ.KeySet) (*security.IKESAKey, *spyLog, error) {
	sa, err := univ.NewSA(ks)
	if err != nil {
		return nil, nil, err
	}
	l := &spyLog{}
	sa.Encr_i = &spyCrypto{sa.Encr_i, "Encr_i", l}
	sa.Encr_r = &spyCrypto{sa.Encr_r, "Encr_r", l}
	sa.Integ_i = &spyHash{sa.Integ_i, "Integ_i", l}
	sa.Integ_r = &spyHash{sa.Integ_r, "Integ_r", l}
	return sa, l, nil
}

func (l *spyLog) has(suffix string) bool {
	for _, e := range l.ev {
		if len(e) >= len(suffix) && e[len(e)-len(suffix):] == suffix {
			return true
		}
	}
	return false
}

type c02Case struct {
	Name    string `json:"name"`
	Suite   int    `json:"suite"`
	Pattern int    `json:"pattern"`
	SenderI bool   `json:"sender_initiator"`
	// receiver configuration
	RSuite   int      `json:"rsuite"`
	RPattern int      `json:"rpattern"`
	RRoleI   bool     `json:"receiver_initiator"`
	ParseH   bool     `json:"parsed_header"`
	Input    string   `json:"input_hex"`
	Class    string   `json:"class"`
	Warm     bool     `json:"warm"`        // the receiver's key object has just accepted the genuine message (history on one SA object)
	Genuine  []string `json:"genuine_hex"` // the genuine messages this input must differ from
}

func init() {
	engine.Register(&engine.Check{
		ID:    "C02",
		Level: "model_checking",
		Rule: "for each protected message of a message set (every payload kind, the empty list, several sizes) × 9 suites × 2 sender roles: every single-bit flip, every proper prefix, extensions by 1..32 octets (0x00, 0xFF, copy of the tail), every splice of two messages under the same keys at every octet offset, swaps of ciphertext blocks, the ICV of one message on another, multi-octet edits, SK bodies shorter than the ICV; " +
			"presentation under every other key pattern of the same suite, under every other suite, and to the producing role (reflection). A trace monitor (spies in the exported cipher and MAC fields of the SA) records Decrypt/Write/Sum events: every non-genuine input must give an error, no Decrypt event and no panic; if the altered octet is the header's first-payload type the result must equal plain Decode of the same bytes with no spy event at all. " +
			"A state is a (message, mutation) pair with its event trace; distinct_nontrivial counts distinct tampered inputs on which the MAC was actually computed (the spy saw Sum) and the input was refused",
		Assumptions: []string{"HMAC collisions (<= 2^-96) are treated as impossible; all inputs are deterministic"},
		Run:         runC02,
		Replay: func(c *engine.Ctx, raw json.RawMessage) {
			var cs c02Case
			unmarshalCase(raw, &cs)
			if cs.Name == "rekeyed-object" {
				for prfIdx := 0; prfIdx < 3; prfIdx++ {
					c02Rekeyed(c, cs.Suite, prfIdx)
				}
				return
			}
			evalC02(c, cs, engine.UnHex(cs.Input), unhexAll(cs.Genuine))
		},
	})
}

func unhexAll(s []string) [][]byte {
	var o [][]byte
	for _, x := range s {
		o = append(o, engine.UnHex(x))
	}
	return o
}

func hexAll(b [][]byte) []string {
	var o []string
	for _, x := range b {
		o = append(o, engine.Hex(x))
	}
	return o
}

func c02Messages(thorough bool) []univ.Inst {
	al := univ.Alphabet()
	var out []univ.Inst
	out = append(out, univ.Inst{Name: "(empty)"})
	for i, a := range al {
		body, err := ref.EncodeBody(a.P, ref.Lib{})
		if err != nil || len(body) > 360 {
			continue
		}
		if thorough || i%2 == 0 {
			out = append(out, a)
		}
	}
	// one large message (more than 1024 encrypted octets): a receiver that treats large datagrams differently
	// (e.g. overlaps verification and decryption) shows only here
	out = append(out, univ.Inst{Name: "CERT.len=1100", P: ref.Payload{T: ref.PCERT, B: 4, Data: univ.Pat(1100, 7)}})
	return out
}

// c02Rekeyed: a key object on which GenerateKeyForIKESA ran twice must refuse messages protected under the
// first key set (an unrelated key set from its point of view) and accept messages under the second.
func c02Rekeyed(c *engine.Ctx, si, prfIdx int) {
	c.Evals++
	s := ref.Suites()[si]
	cs7 := c07Case{PRF: prfIdx, Integ: si % 3, Encr: si / 3, DH: 1}
	cs := c02Case{Name: "rekeyed-object", Suite: si, Class: "cross-key(rekeyed-object)"}
	sa := infoSA(cs7)
	n1, g1, n2, g2 := univ.Pat(40, 1), univ.Pat(256, 2), univ.Pat(44, 3), univ.Pat(256, 4)
	if err := sa.GenerateKeyForIKESA(n1, g1, 1, 2); err != nil {
		return
	}
	if err := sa.GenerateKeyForIKESA(n2, g2, 3, 4); err != nil {
		c.Violate("rekey-error", errStr(err), cs)
		return
	}
	p := ref.PRFs[prfIdx]
	k1 := ref.DeriveIKE(p, s.Integ, s.EncrKeyLen, n1, g1, 1, 2)
	k2 := ref.DeriveIKE(p, s.Integ, s.EncrKeyLen, n2, g2, 3, 4)
	m := ref.Msg{H: univ.BaseHdr, P: []ref.Payload{{T: ref.PNonce, Data: univ.Pat(20, 5)}}}
	_, inner, _ := ref.EncodeChain(m.P, ref.Lib{})
	pad := (16 - (len(inner)+1)%16) % 16
	old, _ := ref.Protect(s, k1.SKei, k1.SKai, m, ref.Lib{}, univ.Pat(16, 6), univ.Pat(pad, 7))
	cur, _ := ref.Protect(s, k2.SKei, k2.SKai, m, ref.Lib{}, univ.Pat(16, 6), univ.Pat(pad, 7))
	cs.Input = engine.Hex(old)
	var err error
	if pi := engine.Catch(func() { _, err = ike.DecodeDecrypt(old, nil, sa, message.Role_Responder) }); pi != nil {
		c.Violate(pi.Sig(), "DecodeDecrypt on a rekeyed object panics: "+pi.Value, cs)
		return
	}
	if err == nil {
		c.Violate("accepted/cross-key(rekeyed-object)", fmt.Sprintf("suite %v: after a second GenerateKeyForIKESA on the same object, a message protected under the FIRST key set is still accepted", s), cs)
		return
	}
	if pi := engine.Catch(func() { _, err = ike.DecodeDecrypt(cur, nil, sa, message.Role_Responder) }); pi != nil || err != nil {
		c.Violate("genuine-rejected/rekeyed-object", fmt.Sprintf("suite %v: a message under the current key set is refused after rekeying the object: %v", s, err), cs)
		return
	}
	c.Count("rejected/cross-key(rekeyed-object)", 1)
}

func runC02(c *engine.Ctx) {
	for si := 0; si < 9; si++ {
		for prfIdx := 0; prfIdx < 3; prfIdx++ {
			if c.Mine() {
				c02Rekeyed(c, si, prfIdx)
			}
		}
	}
	msgs := c02Messages(c.Thorough())
	al := univ.Alphabet()
	for mi, inst := range msgs {
		for si := 0; si < 9; si++ {
			for _, sI := range []bool{true, false} {
				if !c.Mine() {
					continue
				}
				var ps []ref.Payload
				if inst.Name != "(empty)" {
					ps = []ref.Payload{inst.P}
					if mi%3 == 1 {
						ps = append(ps, al[(mi*5+si)%len(al)].P)
					}
				}
				c02Config(c, inst.Name, ref.Msg{H: univ.BaseHdr, P: ps}, mi, si, sI)
			}
		}
	}
}

// protect with the library itself (the property is about messages "produced under the SA").
func c02Protect(ks univ.KeySet, m ref.Msg, senderI bool, stream uint64) ([]byte, error) {
	sa, err := univ.NewSA(ks)
	if err != nil {
		return nil, err
	}
	lm, err := univ.Build(m)
	if err != nil {
		return nil, err
	}
	seam := engine.NewSeam(nil, nil)
	seam.Stream = stream
	restore := engine.Install(seam)
	defer restore()
	return ike.EncodeEncrypt(lm, sa, roleOf(senderI))
}

func c02Config(c *engine.Ctx, name string, m ref.Msg, mi, si int, senderI bool) {
	// the SPIs are random numbers: first octets 0xFF (looks like a NAT keepalive when cut to one octet), 0x00 (looks
	// like a non-ESP marker) and an ordinary one rotate over the configurations
	switch (mi + si) % 3 {
	case 1:
		m.H.ISPI |= 0xff << 56
	case 2:
		m.H.ISPI &= 0x0000ffffffffffff
	}
	ks := univ.MakeKeySet(si, 2, 2)
	g1, err := c02Protect(ks, m, senderI, 1)
	if err != nil {
		c.Violate("protect-error", fmt.Sprintf("%s: %v", name, err), c02Case{Name: name, Suite: si})
		return
	}
	// a second genuine message under the same keys (different header, different IV) for splices
	m2 := m
	m2.H.MsgID++
	m2.H.Exch = 37
	m2.P = append([]ref.Payload{{T: ref.PNotify, B: 1, NType: uint16(16384 + mi), Data: univ.Pat(mi%29, mi)}}, m.P...)
	g2, err := c02Protect(ks, m2, senderI, 2)
	if err != nil {
		g2 = nil
	}
	// same content, other IV: equal length, ideal for block swaps across messages
	g3, _ := c02Protect(ks, m, senderI, 3)
	genuine := [][]byte{g1}
	if g2 != nil {
		genuine = append(genuine, g2)
	}
	if g3 != nil {
		genuine = append(genuine, g3)
	}
	base := c02Case{Name: name, Suite: si, Pattern: 2, SenderI: senderI, RSuite: si, RPattern: 2, RRoleI: !senderI}
	try := func(in []byte, class string, mod func(*c02Case)) {
		cs := base
		cs.Class = class
		if mod != nil {
			mod(&cs)
		}
		engine.Begin(func() interface{} { x := cs; x.Input = engine.Hex(in); x.Genuine = hexAll(genuine); return x })
		evalC02(c, cs, in, genuine)
		if cs.RSuite == cs.Suite && cs.RPattern == cs.Pattern && cs.RRoleI != cs.SenderI && class != "genuine" {
			cs.Warm = true
			evalC02(c, cs, in, genuine)
		}
	}
	icv := ks.Suite.Integ.OutLen

	// control: the genuine messages are accepted (anti-vacuity, also exercises the spies)
	try(g1, "genuine", nil)
	try(g1, "genuine", func(cs *c02Case) { cs.ParseH = true })

	// every single-bit flip
	x := append([]byte(nil), g1...)
	for pos := range x {
		for bit := 0; bit < 8; bit++ {
			x[pos] ^= 1 << uint(bit)
			ph := (pos+bit)%2 == 0
			try(x, "bitflip", func(cs *c02Case) { cs.ParseH = ph })
			x[pos] ^= 1 << uint(bit)
		}
	}
	// thorough: every pair of bit flips inside the cleartext header and SK generic header / IV start (first 48
	// octets), and every pair inside the last ciphertext block and the ICV
	if c.Thorough() && mi%4 == 0 {
		regions := [][2]int{{0, 48}, {len(g1) - icv - 16, len(g1)}}
		for _, rg := range regions {
			lo, hi := rg[0]*8, rg[1]*8
			if lo < 0 {
				lo = 0
			}
			for a := lo; a < hi; a++ {
				for b := a + 1; b < hi; b++ {
					x[a/8] ^= 1 << uint(a%8)
					x[b/8] ^= 1 << uint(b%8)
					try(x, "bitflip2", nil)
					x[a/8] ^= 1 << uint(a%8)
					x[b/8] ^= 1 << uint(b%8)
				}
			}
		}
	}
	// every proper prefix
	for l := 0; l < len(g1); l++ {
		try(g1[:l], "prefix", nil)
		if l >= 28 {
			try(g1[:l], "prefix", func(cs *c02Case) { cs.ParseH = true })
		}
	}
	// extensions
	for e := 1; e <= 32; e++ {
		try(append(append([]byte(nil), g1...), univ.Fill(e, 0)...), "extension", nil)
		try(append(append([]byte(nil), g1...), univ.Fill(e, 0xff)...), "extension", nil)
		if e <= len(g1) {
			try(append(append([]byte(nil), g1...), g1[len(g1)-e:]...), "extension", nil)
		}
	}
	// extension at the front (encapsulation markers, stray octets of a previous datagram): nothing in front of the
	// first header octet is covered by the checksum
	for e := 1; e <= 16; e++ {
		for _, fill := range []byte{0x00, 0xff} {
			x := append(univ.Fill(e, fill), g1...)
			try(x, "extension-front", nil)
			try(x, "extension-front", func(cs *c02Case) { cs.ParseH = true })
		}
		if e <= len(g1) {
			try(append(append([]byte(nil), g1[:e]...), g1...), "extension-front", nil)
		}
	}
	// extension that is itself a well-formed payload of the type SK.next names
	try(append(append([]byte(nil), g1...), 0, 0, 0, 8, 1, 2, 3, 4), "extension", nil)
	// splices of two genuine messages at every offset, both ways
	for _, o := range [][]byte{g2, g3} {
		if o == nil {
			continue
		}
		for k := 1; k < len(g1) && k < len(o); k++ {
			try(append(append([]byte(nil), g1[:k]...), o[k:]...), "splice", nil)
			try(append(append([]byte(nil), o[:k]...), g1[k:]...), "splice", func(cs *c02Case) { cs.ParseH = true })
		}
	}
	// ciphertext block swaps inside one message; block transplant between messages
	ctStart, ctEnd := 28+4+16, len(g1)-icv
	nb := (ctEnd - ctStart) / 16
	for i := 0; i < nb; i++ {
		for j := i + 1; j < nb; j++ {
			y := append([]byte(nil), g1...)
			copy(y[ctStart+16*i:], g1[ctStart+16*j:ctStart+16*j+16])
			copy(y[ctStart+16*j:], g1[ctStart+16*i:ctStart+16*i+16])
			try(y, "blockswap", nil)
		}
		if g3 != nil && len(g3) == len(g1) {
			y := append([]byte(nil), g1...)
			copy(y[ctStart+16*i:], g3[ctStart+16*i:ctStart+16*i+16])
			try(y, "blocktransplant", nil)
		}
	}
	// the ICV of another genuine message
	for _, o := range [][]byte{g2, g3} {
		if o != nil {
			y := append([]byte(nil), g1...)
			copy(y[len(y)-icv:], o[len(o)-icv:])
			try(y, "foreign-icv", nil)
		}
	}
	// ICV zeroed, ICV truncated by shortening the payload consistently (lengths rewritten)
	{
		y := append([]byte(nil), g1...)
		for i := len(y) - icv; i < len(y); i++ {
			y[i] = 0
		}
		try(y, "zero-icv", nil)
		for cut := 1; cut <= icv+16 && cut < len(g1)-32; cut++ {
			z := append([]byte(nil), g1[:len(g1)-cut]...)
			tl := len(z)
			z[24], z[25], z[26], z[27] = byte(tl>>24), byte(tl>>16), byte(tl>>8), byte(tl)
			z[30], z[31] = byte((tl-28)>>8), byte(tl-28)
			try(z, "consistent-truncation", nil)
		}
	}
	// SK bodies shorter than the ICV, lengths consistent
	for l := 0; l < icv+2; l++ {
		z := append([]byte(nil), g1[:32]...)
		z = append(z, univ.Pat(l, l)...)
		tl := len(z)
		z[24], z[25], z[26], z[27] = byte(tl>>24), byte(tl>>16), byte(tl>>8), byte(tl)
		z[30], z[31] = byte((tl-28)>>8), byte(tl-28)
		try(z, "short-sk-body", func(cs *c02Case) { cs.ParseH = l%2 == 0 })
	}
	// multi-octet edits
	for pos := 0; pos+4 <= len(g1); pos += 3 {
		for _, v := range []byte{0x00, 0xff} {
			y := append([]byte(nil), g1...)
			for i := 0; i < 4; i++ {
				y[pos+i] = v
			}
			if !bytes.Equal(y, g1) {
				try(y, "multi-octet", nil)
			}
		}
	}
	// cross-key: every other key pattern of the same suite, every other suite; reflection
	for _, pat := range []int{0, 1, 3, 4} {
		try(g1, "cross-key", func(cs *c02Case) { cs.RPattern = pat })
	}
	for os := 0; os < 9; os++ {
		if os != si {
			try(g1, "cross-suite", func(cs *c02Case) { cs.RSuite = os })
			try(g1, "cross-suite", func(cs *c02Case) { cs.RSuite = os; cs.RPattern = 3 })
		}
	}
	try(g1, "reflection", func(cs *c02Case) { cs.RRoleI = senderI })
	try(g1, "reflection", func(cs *c02Case) { cs.RRoleI = senderI; cs.ParseH = true })
}

func evalC02(c *engine.Ctx, cs c02Case, in []byte, genuine [][]byte) {
	c.Evals++
	c.Transitions++
	rks := univ.MakeKeySet(cs.RSuite, 2, cs.RPattern)
	sa, log, err := spySA(rks)
	if err != nil {
		c.Violate("sa-construction", errStr(err), cs)
		return
	}
	if cs.Warm && len(genuine) > 0 {
		// the same key object first accepts the genuine message, as a live SA would
		var werr error
		if pi := engine.Catch(func() { _, werr = ike.DecodeDecrypt(genuine[0], nil, sa, roleOf(cs.RRoleI)) }); pi != nil || werr != nil {
			c.Violate("genuine-rejected", fmt.Sprintf("%s: warm-up with the genuine message failed: %v %v", cs.Name, pi, werr), cs)
			return
		}
		log.ev = nil
		c.Transitions++
	}
	isGenuine := false
	sameKeys := cs.RSuite == cs.Suite && cs.RPattern == cs.Pattern && cs.RRoleI != cs.SenderI
	for _, g := range genuine {
		if bytes.Equal(g, in) && sameKeys {
			isGenuine = true
		}
	}
	full := func() c02Case { x := cs; x.Input = engine.Hex(in); x.Genuine = hexAll(genuine); return x }
	var hdr *message.IKEHeader
	if cs.ParseH {
		hdr, err = message.ParseHeader(in)
		if err != nil {
			c.Count("header_unparseable", 1)
			return
		}
	}
	var got *message.IKEMessage
	pi := engine.Catch(func() { got, err = ike.DecodeDecrypt(in, hdr, sa, roleOf(cs.RRoleI)) })
	c.Traces++
	if pi != nil {
		c.Violate(pi.Sig(), fmt.Sprintf("%s/%s: DecodeDecrypt panics: %s", cs.Name, cs.Class, pi.Value), full())
		return
	}
	if isGenuine {
		if err != nil {
			c.Violate("genuine-rejected", fmt.Sprintf("%s: %v", cs.Name, err), full())
			return
		}
		if log.has(".Decrypt") {
			c.Count("genuine_inputs_on_which_the_spy_cipher_was_reached", 1)
		}
		return
	}
	// the stated exception: first-payload type no longer SK -> handled as an unprotected datagram
	if len(in) >= 28 && in[16] != ref.PSK {
		want := new(message.IKEMessage)
		var werr error
		wpi := engine.Catch(func() { werr = want.Decode(in) })
		if wpi != nil {
			c.Violate(wpi.Sig(), "plain Decode panics: "+wpi.Value, full())
			return
		}
		if len(log.ev) != 0 {
			c.Violate("key-applied-to-unprotected-datagram/"+cs.Class, fmt.Sprintf("%s: first payload type %d is not SK but the SA objects were used: %v", cs.Name, in[16], log.ev), full())
			return
		}
		// a first payload that is not SK but a later one that is: the library refuses (no key applied) — accepted either way if consistent with plain decode
		if (werr == nil) != (err == nil) {
			// plain decode succeeded but DecodeDecrypt failed or vice versa
			c.Violate("unprotected-datagram-handled-differently/"+cs.Class, fmt.Sprintf("%s: plain Decode err=%v, DecodeDecrypt err=%v", cs.Name, werr, err), full())
			return
		}
		if err == nil && univ.Project(got).Canon() != univ.Project(want).Canon() {
			c.Violate("unprotected-datagram-handled-differently/"+cs.Class, fmt.Sprintf("%s: results differ", cs.Name), full())
			return
		}
		c.Count("first_payload_type_altered(handled as plain)", 1)
		return
	}
	if log.has(".Decrypt") {
		c.Violate("decrypt-before-or-without-verification/"+cs.Class+warmTag(cs), fmt.Sprintf("%s under %v: ciphertext of a non-genuine input reached the cipher; events %v", cs.Name, rks.Suite, log.ev), full())
		return
	}
	if err == nil {
		c.Violate("accepted/"+cs.Class+warmTag(cs), fmt.Sprintf("%s under %v (receiver pattern %d, initiator=%v, parsed header=%v, warm=%v): non-genuine input of %d octets unprotected without error", cs.Name, rks.Suite, cs.RPattern, cs.RRoleI, cs.ParseH, cs.Warm, len(in)), full())
		return
	}
	c.Count("rejected/"+cs.Class, 1)
	if log.has(".Sum") {
		c.Distinct(engine.Hash64(in, []byte{byte(cs.RSuite), byte(cs.RPattern)}))
	}
	if c.State(engine.Hash64(in, []byte{byte(cs.RSuite), byte(cs.RPattern), b2i(cs.RRoleI), b2i(cs.ParseH), b2i(cs.Warm)})) {
		c.States++
	}
	c.Sample(cs.Class, map[string]interface{}{"name": cs.Name, "suite": rks.Suite.String(), "events": log.ev, "input": engine.Hex(trunc(in, 64)), "error": errStr(err)})
}

func b2i(b bool) byte {
	if b {
		return 1
	}
	return 0
}

func warmTag(cs c02Case) string {
	if cs.Warm {
		return "/after-genuine-on-same-sa"
	}
	return ""
}
