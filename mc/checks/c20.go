package checks

import (
	"bytes"
	"encoding/json"
	"fmt"
	"strings"

	ike "github.com/free5gc/ike"
	"github.com/free5gc/ike/message"

	"verif/mc/engine"
	"verif/mc/ref"
	"verif/mc/univ"
)

// C20 — decoded messages own their data; encoding is pure and deterministic.

type c20Case struct {
	K     string   `json:"k"` // decode | unprotect | encode | protect
	Name  string   `json:"name"`
	B     string   `json:"input_hex,omitempty"`
	M     *ref.Msg `json:"m,omitempty"`
	Then  *ref.Msg `json:"then,omitempty"`
	Suite int      `json:"suite"`
	Role  bool     `json:"sender_initiator"`
}

func init() {
	engine.Register(&engine.Check{
		ID:    "C20",
		Level: "model_checking",
		Rule: "decode side: every accepted byte string among the encodings of the message universe (sequences up to the depth bound, all liberties) and their single-octet mutation closure, through Decode, through DecodeDecrypt (9 suites, both roles) and through the keyless entry points (DecodeDecrypt with nil keys × {no header, header parsed from the receive buffer, header parsed from a copy}, ParseHeader + DecodePayload): (i) alias invariant — no byte-slice region (base, cap) reachable from the decoded message (IKEHeader.PayloadBytes excepted as documented) intersects the input buffer, which covers all subsequent writes; cross-checked behaviourally by overwriting the input with 0x00 / 0xFF / its complement and comparing dumps. " +
			"encode side: for every message of the universe: the dump of every payload is unchanged by Encode, the returned buffer intersects nothing reachable from the message, overwriting it changes neither the message nor a later encoding, three consecutive encodings are byte-identical, and buffers returned earlier (for this and for the previously encoded message, at message and at container level) stay intact after later Encode calls; " +
			"protect side: EncodeEncrypt leaves every original payload object unchanged, replaces the list by exactly [SK] and changes no header field other than NextPayload/PayloadBytes. A state is a canonical dump of a message object graph; distinct_nontrivial counts distinct message dumps with >= 1 payload checked",
		Assumptions: []string{"state changes inside the key object are C17's subject; writes of a decoder into its input are C18's subject; both are only noted here"},
		Run:         runC20,
		Replay: func(c *engine.Ctx, raw json.RawMessage) {
			engine.PinMapOrder()
			var cs c20Case
			unmarshalCase(raw, &cs)
			c20Prev, c20PrevC = nil, nil
			switch cs.K {
			case "decode":
				c20Decode(c, cs, engine.UnHex(cs.B))
			case "unprotect":
				c20Unprotect(c, cs)
			case "encode":
				if cs.Then != nil {
					c20Encode(c, c20Case{K: "encode", Name: cs.Name, M: cs.M})
					c20Encode(c, c20Case{K: "encode", Name: "(then)", M: cs.Then})
				} else {
					c20Encode(c, cs)
				}
			case "protect":
				c20Protect(c, cs)
			}
		},
	})
}

func runC20(c *engine.Ctx) {
	engine.PinMapOrder()
	depth := 1
	if c.Thorough() {
		depth = 2
	}
	// decode side: encodings, liberties, mutation closure
	univ.Messages(depth, func(name string, m ref.Msg) {
		if !c.Mine() {
			return
		}
		for _, lv := range liberties(m, false) {
			b, err := ref.Encode(m, lv.l)
			if err != nil {
				continue
			}
			c20Decode(c, c20Case{K: "decode", Name: name}, b)
			if lv.name != "none" || len(b) > 400 {
				continue
			}
			x := append([]byte(nil), b...)
			for pos := range x {
				o := x[pos]
				for _, v := range []byte{0, 0xff, o + 1, o ^ 0x80} {
					if v != o {
						x[pos] = v
						c20Decode(c, c20Case{K: "decode", Name: "U-mut(" + name + ")"}, x)
					}
				}
				x[pos] = o
			}
		}
	})
	if c.Mine() {
		// messages made only of payloads the library skips (unsupported, not critical): the decoded payload list
		// is empty while the header's bookkeeping still covers the received octets
		for _, types := range [][]uint8{{1}, {32}, {49}, {255}, {54, 200}, {1, 2, 3}} {
			for _, n := range []int{0, 1, 9} {
				h := univ.BaseHdr
				h.Exch = 37
				var ps []ref.Payload
				for i, t := range types {
					ps = append(ps, ref.Payload{T: t, Data: univ.Pat(n, int(t)+i)})
				}
				if b, err := ref.Encode(ref.Msg{H: h, P: ps}, ref.Lib{}); err == nil {
					c20Decode(c, c20Case{K: "decode", Name: "only-unsupported-payloads"}, b)
				}
			}
		}
		c20Decode(c, c20Case{K: "decode", Name: "bare-header"}, func() []byte { b, _ := ref.Encode(ref.Msg{H: univ.BaseHdr}, ref.Lib{}); return b }())
		for _, b := range c20ForeignAKA() {
			c20Decode(c, c20Case{K: "decode", Name: "foreign-aka-attributes"}, b)
		}
	}
	// messages whose fields are not in encodable form as they stand (address lengths that do not match the
	// selector type, as net.ParseIP yields for dotted quads): whatever Encode answers, the payloads stay as they are
	if c.Mine() {
		mapped := append(append(make([]byte, 10), 0xff, 0xff), 10, 0, 0, 1)
		mapped2 := append(append(make([]byte, 10), 0xff, 0xff), 10, 0, 0, 200)
		v6 := append([]byte{0x20, 0x01}, univ.Pat(14, 3)...)
		for i, ad := range [][2][]byte{{mapped, mapped2}, {v6, v6}, {{10, 0, 0, 1}, mapped2}, {mapped, {10, 0, 0, 9}}, {{}, {}}, {{1, 2, 3}, {1, 2, 3, 4, 5}}} {
			for _, ty := range []uint8{7, 8} {
				for _, pt := range []uint8{ref.PTSi, ref.PTSr} {
					mm := ref.Msg{H: univ.BaseHdr, P: []ref.Payload{{T: pt, TS: []ref.Selector{{Type: ty, Proto: 6, SPort: 1, EPort: 2, SAddr: ad[0], EAddr: ad[1]}}}}}
					c20Encode(c, c20Case{K: "encode", Name: fmt.Sprintf("TS.addrlen-mismatch=%d/%d", i, ty), M: &mm})
					// the payload that cannot be encoded is not the first one
					m3 := ref.Msg{H: univ.BaseHdr, P: []ref.Payload{{T: ref.PNonce, Data: univ.Pat(32, i)}, {T: ref.PVendor, Data: univ.Pat(9, i)}, mm.P[0], {T: ref.PNonce, Data: univ.Pat(8, i)}}}
					c20Encode(c, c20Case{K: "encode", Name: fmt.Sprintf("TS.addrlen-mismatch(third payload)=%d/%d", i, ty), M: &m3})
				}
			}
		}
	}
	// values that a caller can put into a message although no decoder would produce them (a CP attribute type with
	// the reserved top bit set, a TV attribute type with the format bit in it): whatever the encoder writes, the
	// message is the caller's and stays as it is
	if c.Mine() {
		for _, ty := range []uint16{0x8001, 0xffff, 0x8000} {
			mm := ref.Msg{H: univ.BaseHdr, P: []ref.Payload{{T: ref.PCP, B: 1, CP: []ref.CPAttr{{Type: 1, Val: []byte{1}}, {Type: ty, Val: univ.Pat(4, int(ty))}}}}}
			c20Encode(c, c20Case{K: "encode", Name: fmt.Sprintf("CP.attrtype=%#x", ty), M: &mm})
			m2 := ref.Msg{H: univ.BaseHdr, P: []ref.Payload{{T: ref.PSA, SA: []ref.Proposal{{Num: 1, Proto: 1, Tr: []ref.Transform{{Type: 1, ID: 12, HasAttr: true, TV: true, AType: ty, AValue: 128}, {Type: 2, ID: 5}}}}}}}
			c20Encode(c, c20Case{K: "encode", Name: fmt.Sprintf("SA.attrtype=%#x", ty), M: &m2})
		}
	}
	// the structured part of the sweeps (nested lists in unusual orders and shapes) through the encode-side clauses
	si := 0
	univ.Sweeps(c.Thorough(), func(name string, m ref.Msg, fits bool) {
		keep := false
		for _, pre := range []string{"SA.propnums", "SA.type×id", "SA.spilen=", "TSi.v", "TSr.v", "TSr.count", "order.exch", "AKA.subset", "D.count", "CP.vallen"} {
			if strings.HasPrefix(name, pre) {
				keep = true
			}
		}
		if !keep || !fits {
			return
		}
		si++
		if !c.Mine() || (strings.HasPrefix(name, "order.exch") && si%6 != 0 && !c.Thorough()) {
			return
		}
		mm := m
		c20Encode(c, c20Case{K: "encode", Name: name, M: &mm})
	})
	// encode / protect / unprotect side over the universe
	univ.Messages(depthFor(c), func(name string, m ref.Msg) {
		if !c.Mine() {
			return
		}
		mm := m
		c20Encode(c, c20Case{K: "encode", Name: name, M: &mm})
		for si := 0; si < 9; si++ {
			for _, role := range []bool{true, false} {
				if len(m.P) > 1 && (si+b2int(role))%3 != 0 {
					continue
				}
				// the header the caller built: flag combinations (incl. an Initiator flag that disagrees with the role,
				// the Version flag, reserved bits) and version numbers rotate with suite and role
				hm := m
				hm.H.Flags = []uint8{0x08, 0x20, 0x00, 0x28, 0x10, 0xff, 0x18, 0x30, 0x01}[si]
				if !role {
					hm.H.Major, hm.H.Minor = []uint8{2, 2, 3, 15, 0, 1}[si%6], []uint8{0, 7, 0, 15, 0, 1}[si%6]
				}
				c20Protect(c, c20Case{K: "protect", Name: name, M: &hm, Suite: si, Role: role})
				c20Unprotect(c, c20Case{K: "unprotect", Name: name, M: &mm, Suite: si, Role: role})
			}
		}
	})
}

func dumpMsg(m *message.IKEMessage) string {
	// PayloadBytes (documented alias) and NextPayload (bookkeeping) are excluded
	var h message.IKEHeader
	if m.IKEHeader != nil {
		h = *m.IKEHeader
		h.PayloadBytes, h.NextPayload = nil, 0
	}
	return engine.Dump(&h) + engine.Dump(&m.Payloads)
}

func c20Decode(c *engine.Ctx, cs c20Case, in []byte) {
	c.Evals++
	// the input lives in the middle of a larger buffer, as a receive buffer would
	buf := make([]byte, len(in)+64)
	b := buf[16 : 16+len(in)]
	copy(b, in)
	m := new(message.IKEMessage)
	var err error
	if pi := engine.Catch(func() { err = m.Decode(b) }); pi != nil || err != nil {
		c.Count("not_accepted", 1)
		return
	}
	c.Transitions++
	cs.B = engine.Hex(in)
	if !bytes.Equal(b, in) {
		c.Note("decoder-wrote-into-its-input")
	}
	regs := engine.Regions(&m.Payloads)
	if r, ok := engine.Overlaps(regs, buf); ok {
		c.Violate("decoded-field-aliases-input/"+fieldOf(r.Path), fmt.Sprintf("%s: after Decode the field %s (len %d, cap %d) shares memory with the input buffer", cs.Name, r.Path, r.Len, r.Cap), cs)
		return
	}
	// the other ways a receiver decodes the same datagram: DecodeDecrypt without keys, with and without a header it
	// parsed beforehand (from the receive buffer itself or from a copy), and ParseHeader + DecodePayload
	for mode := 0; mode < 4; mode++ {
		var got *message.IKEMessage
		var derr error
		pi := engine.Catch(func() {
			switch mode {
			case 0:
				got, derr = ike.DecodeDecrypt(b, nil, nil, message.Role_Responder)
			case 1:
				var hdr *message.IKEHeader
				if hdr, derr = message.ParseHeader(b); derr == nil {
					got, derr = ike.DecodeDecrypt(b, hdr, nil, message.Role_Initiator)
				}
			case 2:
				var hdr *message.IKEHeader
				if hdr, derr = message.ParseHeader(append([]byte(nil), b...)); derr == nil {
					got, derr = ike.DecodeDecrypt(b, hdr, nil, message.Role_Responder)
				}
			default:
				var hdr *message.IKEHeader
				if hdr, derr = message.ParseHeader(b); derr == nil {
					got = &message.IKEMessage{IKEHeader: hdr}
					derr = got.DecodePayload(b[28:])
				}
			}
		})
		if pi != nil || derr != nil || got == nil {
			continue
		}
		if r, ok := engine.Overlaps(engine.Regions(&got.Payloads), buf); ok {
			how := []string{"DecodeDecrypt(no keys, no header)", "DecodeDecrypt(no keys, header parsed from the receive buffer)", "DecodeDecrypt(no keys, header parsed from a copy)", "ParseHeader + DecodePayload"}[mode]
			c.Violate("decoded-field-aliases-input/"+fieldOf(r.Path)+"/alternative-entry-point", fmt.Sprintf("%s: after %s the field %s (len %d, cap %d) shares memory with the receive buffer", cs.Name, how, r.Path, r.Len, r.Cap), cs)
			return
		}
		c.Count("alternative_entry_points_checked", 1)
	}
	// inside one decoded message every byte slice has its memory to itself, spare capacity included: appending to
	// one field (a non-mutating append by the holder) must not be able to reach another field
	{
		rs := engine.Regions(&m.Payloads)
		for i := 0; i < len(rs); i++ {
			for j := i + 1; j < len(rs); j++ {
				a, b2 := rs[i], rs[j]
				if a.Cap == 0 || b2.Cap == 0 || a.Base == b2.Base && a.Path == b2.Path {
					continue
				}
				if a.Base < b2.Base+uintptr(b2.Cap) && b2.Base < a.Base+uintptr(a.Cap) {
					c.Violate("decoded-fields-share-capacity/"+fieldOf(a.Path), fmt.Sprintf("%s: the fields %s (len %d, cap %d) and %s (len %d, cap %d) of one decoded message overlap in memory: appending to one overwrites the other", cs.Name, a.Path, a.Len, a.Cap, b2.Path, b2.Len, b2.Cap), cs)
					return
				}
			}
		}
	}
	// two decodings of the same octets own their data separately: no heap object (payload, nested element, byte
	// slice, map) is reachable from both — the first message may be edited freely by its holder
	{
		b2 := append([]byte(nil), in...)
		m2 := new(message.IKEMessage)
		if err2 := m2.Decode(b2); err2 == nil {
			if x, y, ok := engine.Shared(engine.Objects(&m.Payloads), engine.Objects(&m2.Payloads)); ok {
				c.Violate("decoded-messages-share-memory/"+fieldOf(x.Path), fmt.Sprintf("%s: two decodings of the same octets both reach the object at %s / %s (%d octets): editing one decoded message changes the other", cs.Name, x.Path, y.Path, x.Cap), cs)
				return
			}
		}
	}
	d0 := dumpMsg(m)
	// what the decoded message encodes to must not depend on the receive buffer either (bookkeeping kept in the
	// header may still point into it)
	var encBefore []byte
	var encErr error
	if pi := engine.Catch(func() { encBefore, encErr = m.Encode() }); pi != nil {
		// outside the listed properties (C12 speaks about decoded messages that *do* encode again); same note as C12
		c.Note("encode-panics-on-decoded-value:" + pi.Sig())
		encErr = fmt.Errorf("panic")
	}
	encBefore = append([]byte(nil), encBefore...)
	if encErr == nil && len(m.Payloads) == 0 && len(encBefore) != 28 {
		c.Violate("decoded-empty-message-encodes-payload-octets", fmt.Sprintf("%s: the decoded message has no payloads but encodes to %d octets", cs.Name, len(encBefore)), cs)
		return
	}
	// decode again: the Encode above must not have disturbed anything the alias / overwrite clauses look at
	m = new(message.IKEMessage)
	if err = m.Decode(b); err != nil {
		return
	}
	for _, fill := range []int{0x00, 0xff, -1} {
		for i := range buf {
			if fill < 0 {
				buf[i] = ^buf[i]
			} else {
				buf[i] = byte(fill)
			}
		}
		if d1 := dumpMsg(m); d1 != d0 {
			c.Violate("decoded-message-changes-with-input-buffer", fmt.Sprintf("%s: overwriting the receive buffer changes the decoded message", cs.Name), cs)
			return
		}
		if encErr == nil {
			var e2 []byte
			var err2 error
			engine.Catch(func() { e2, err2 = m.Encode() })
			if err2 != nil || !bytes.Equal(e2, encBefore) {
				c.Violate("decoded-message-encoding-changes-with-input-buffer", fmt.Sprintf("%s: the decoded message encodes to %x… before and %x… after the receive buffer was overwritten", cs.Name, trunc(encBefore, 40), trunc(e2, 40)), cs)
				return
			}
		}
	}
	// a decoded message re-encodes to the same bytes whatever the map iteration order (decoded EAP-AKA' packets
	// can hold attribute types that no setter accepts)
	if engine.InstrumentedBuild() && decodedHasAKA(m) && encErr == nil {
		var first []byte
		bad := false
		execs, _ := engine.ForAllMapOrders(5000, func([]int) {
			var bx []byte
			var ex error
			if pi := engine.Catch(func() { bx, ex = m.Encode() }); pi != nil || ex != nil {
				return
			}
			if first == nil {
				first = bx
			} else if !bytes.Equal(first, bx) {
				bad = true
			}
		})
		c.Count("map_order_executions", execs)
		if bad {
			c.Violate("encode-depends-on-map-order/decoded-message", fmt.Sprintf("%s: the decoded message encodes differently under different map iteration orders", cs.Name), cs)
			return
		}
	}
	h := engine.Hash64([]byte(d0))
	if c.State(h) {
		c.States++
		if len(m.Payloads) > 0 {
			c.Distinct(h)
		}
	}
	c.Sample("decode", map[string]interface{}{"name": cs.Name, "input": engine.Hex(trunc(in, 48)), "byte_slices_reachable": len(regs)})
}

func fieldOf(path string) string {
	// strip indices: "[0].Proposals[1].SPI" -> "Proposals.SPI"
	out := make([]byte, 0, len(path))
	depth := 0
	for i := 0; i < len(path); i++ {
		switch path[i] {
		case '[':
			depth++
		case ']':
			depth--
		default:
			if depth == 0 {
				out = append(out, path[i])
			}
		}
	}
	return string(out)
}

type c20Held struct {
	name string
	m    ref.Msg
	wire []byte
	want []byte
}

var c20Prev, c20PrevC *c20Held

func c20Encode(c *engine.Ctx, cs c20Case) {
	c.Evals++
	m := *cs.M
	lm, err := univ.Build(m)
	if err != nil {
		return
	}
	// second object with an adversarial (but legal) memory layout of the caller's slices
	for mode := 0; mode < 2; mode++ {
		lr, err := univ.Build(m)
		if err != nil {
			break
		}
		intact := univ.RelayoutMode(&lr.Payloads, mode)
		d0 := engine.Dump(&lr.Payloads)
		var rb []byte
		if pi := engine.Catch(func() { rb, err = lr.Encode() }); pi != nil {
			c.Violate(pi.Sig(), "Encode of a re-laid-out message panics: "+pi.Value, cs)
			return
		}
		if err == nil {
			if engine.Dump(&lr.Payloads) != d0 {
				c.Violate("encode-alters-payloads/shared-backing-array", fmt.Sprintf("%s: with sibling slices carved from one backing array, Encode changes a payload (it appends to a slice of the caller)", cs.Name), cs)
				return
			}
			if !intact() {
				// only the spare capacity behind the caller's slices was written: no payload changed and the
				// encoding is right, so this is recorded, not reported (an append into a caller's slice becomes
				// a violation as soon as a sibling slice lives there: layout mode 1 provides that)
				c.Note("encode writes into spare capacity behind a caller slice (no payload changed)")
			}
			if pb, perr := lm.Encode(); perr == nil && !bytes.Equal(pb, rb) {
				c.Violate("encoding-depends-on-memory-layout", fmt.Sprintf("%s: the same message encodes differently when its slices share a backing array", cs.Name), cs)
				return
			}
		}
	}
	pd0 := engine.Dump(&lm.Payloads)
	var b1 []byte
	if pi := engine.Catch(func() { b1, err = lm.Encode() }); pi != nil {
		c.Violate(pi.Sig(), "Encode panics: "+pi.Value, cs)
		return
	}
	if err != nil {
		// an Encode that refuses the message must leave it alone as well
		if engine.Dump(&lm.Payloads) != pd0 {
			c.Violate("encode-alters-payloads/refused-message", fmt.Sprintf("%s: Encode returns an error (%s) and a payload differs afterwards", cs.Name, errStr(err)), cs)
		}
		c.Count("encode_refused", 1)
		// ... and it concerns that message only: what another message encodes to right afterwards is a function of that
		// other message
		other := ref.Msg{H: univ.BaseHdr, P: []ref.Payload{{T: ref.PNonce, Data: univ.Pat(16, 3)}, {T: ref.PNotify, B: 0, NType: 16384}}}
		if om, oerr := univ.Build(other); oerr == nil {
			var ob []byte
			var oe error
			if pi := engine.Catch(func() { ob, oe = om.Encode() }); pi != nil {
				c.Violate(pi.Sig(), "Encode after a refused Encode panics: "+pi.Value, cs)
				return
			}
			if wb, werr := ref.Encode(other, ref.Lib{}); werr == nil && (oe != nil || !bytes.Equal(ob, wb)) {
				c.Violate("encoding-depends-on-earlier-refused-encode", fmt.Sprintf("%s: after this message was refused by Encode, another message encodes to %x… (err %v) instead of %x…", cs.Name, trunc(ob, 48), oe, trunc(wb, 48)), cs)
				return
			}
		}
		return
	}
	c.Transitions++
	want := append([]byte(nil), b1...)
	if engine.Dump(&lm.Payloads) != pd0 {
		c.Violate("encode-alters-payloads", fmt.Sprintf("%s: a payload differs after Encode", cs.Name), cs)
		return
	}
	if r, ok := engine.Overlaps(engine.Regions(&lm.Payloads), b1); ok {
		c.Violate("encode-returns-referenced-buffer/"+fieldOf(r.Path), fmt.Sprintf("%s: the buffer returned by Encode shares memory with %s", cs.Name, r.Path), cs)
		return
	}
	// earlier returned buffers must stay intact after this Encode
	for _, prev := range []*c20Held{c20Prev, c20PrevC} {
		if prev != nil && !bytes.Equal(prev.wire, prev.want) {
			pm := prev.m
			c.Violate("returned-buffer-changed-by-later-encode", fmt.Sprintf("the buffer returned for %q changed when %q was encoded", prev.name, cs.Name), c20Case{K: "encode", Name: prev.name, M: &pm, Then: cs.M})
			c20Prev, c20PrevC = nil, nil
			return
		}
	}
	b2, e2 := lm.Encode()
	b3, e3 := lm.Encode()
	if e2 != nil || e3 != nil || !bytes.Equal(b2, want) || !bytes.Equal(b3, want) || !bytes.Equal(b1, want) {
		c.Violate("encode-not-deterministic", fmt.Sprintf("%s: repeated encodings differ (or change earlier results)", cs.Name), cs)
		return
	}
	for i := range b1 {
		b1[i] = ^b1[i]
	}
	if engine.Dump(&lm.Payloads) != pd0 {
		c.Violate("message-changes-with-returned-buffer", fmt.Sprintf("%s: overwriting the returned buffer changes the message", cs.Name), cs)
		return
	}
	if b4, e4 := lm.Encode(); e4 != nil || !bytes.Equal(b4, want) {
		c.Violate("later-encoding-changes-with-returned-buffer", fmt.Sprintf("%s: overwriting the returned buffer changes a later encoding", cs.Name), cs)
		return
	}
	// every map iteration order (instrumented build) gives the same bytes
	if engine.InstrumentedBuild() && hasAKA(m) {
		bad := false
		execs, _ := engine.ForAllMapOrders(5000, func([]int) {
			if bx, ex := lm.Encode(); ex != nil || !bytes.Equal(bx, want) {
				bad = true
			}
		})
		c.Count("map_order_executions", execs)
		if bad {
			c.Violate("encode-depends-on-map-order", fmt.Sprintf("%s: the encoding changes with the map iteration order", cs.Name), cs)
			return
		}
	}
	// container level
	var cb []byte
	engine.Catch(func() { cb, err = lm.Payloads.Encode() })
	if err == nil && len(cb) > 0 {
		if r, ok := engine.Overlaps(engine.Regions(&lm.Payloads), cb); ok {
			c.Violate("container-encode-returns-referenced-buffer/"+fieldOf(r.Path), r.Path, cs)
			return
		}
		c20PrevC = &c20Held{name: cs.Name + "(container)", m: m, wire: cb, want: append([]byte(nil), cb...)}
	}
	// the encoding is a function of the message (header fields + payload list), not of what earlier Encode calls
	// left behind: change the list and compare with a freshly built message holding the same list
	for variant := 0; variant < 2; variant++ {
		nm := ref.Msg{H: m.H}
		lx, err := univ.Build(m)
		if err != nil {
			break
		}
		if _, err := lx.Encode(); err != nil {
			break
		}
		if variant == 0 {
			lx.Payloads.Reset()
		} else {
			if len(m.P) < 2 {
				break
			}
			lx.Payloads = lx.Payloads[1:]
			nm.P = m.P[1:]
		}
		fresh, err := univ.Build(nm)
		if err != nil {
			break
		}
		var bx, bf []byte
		var ex, ef error
		engine.Catch(func() { bx, ex = lx.Encode(); bf, ef = fresh.Encode() })
		if (ex == nil) != (ef == nil) || !bytes.Equal(bx, bf) {
			c.Violate("encoding-depends-on-earlier-encode", fmt.Sprintf("%s: after Encode, with the payload list changed (variant %d), the message encodes to %x… (err %v); a freshly built message with the same header and list encodes to %x… (err %v)", cs.Name, variant, trunc(bx, 48), ex, trunc(bf, 48), ef), cs)
			return
		}
	}
	c20Prev = &c20Held{name: cs.Name, m: m, wire: b2, want: want}
	h := engine.Hash64([]byte(pd0))
	if c.State(h) {
		c.States++
		if len(m.P) > 0 {
			c.Distinct(h)
		}
	}
}

func c20Protect(c *engine.Ctx, cs c20Case) {
	c.Evals++
	m := *cs.M
	ks := univ.MakeKeySet(cs.Suite, 2, 2)
	if !protectedFits(m, ks.Suite.Integ.OutLen) {
		return
	}
	sa, err := univ.NewSA(ks)
	lm, err2 := univ.Build(m)
	if err != nil || err2 != nil {
		return
	}
	held := lm.Payloads // the caller's own view of the list (same backing array), e.g. the variable it built the message from
	orig := append(message.IKEPayloadContainer(nil), lm.Payloads...)
	before := make([]string, len(orig))
	for i, p := range orig {
		before[i] = engine.Dump(p)
	}
	h0 := *lm.IKEHeader
	// a protection that is refused (the random source fails at read 0 / 1) alters nothing at all
	for at := 0; at < 2; at++ {
		script := make([]int, at+1)
		script[at] = 1
		fs := engine.NewSeam(engine.NewReplayRun(script), []int{engine.AnsA, engine.AnsErr})
		rst := engine.Install(fs)
		var ferr error
		fpi := engine.Catch(func() { _, ferr = ike.EncodeEncrypt(lm, sa, roleOf(cs.Role)) })
		rst()
		if fpi != nil || ferr == nil {
			break
		}
		same := len(lm.Payloads) == len(orig)
		for i := 0; same && i < len(orig); i++ {
			same = lm.Payloads[i] == orig[i] && engine.Dump(orig[i]) == before[i]
		}
		if !same {
			c.Violate("refused-protect-alters-message", fmt.Sprintf("%s: EncodeEncrypt returned an error (random source failing at read %d) and the message's payload list is no longer what the caller built", cs.Name, at), cs)
			return
		}
	}
	seam := engine.NewSeam(nil, nil)
	restore := engine.Install(seam)
	var b []byte
	pi := engine.Catch(func() { b, err = ike.EncodeEncrypt(lm, sa, roleOf(cs.Role)) })
	restore()
	if pi != nil {
		c.Violate(pi.Sig(), "EncodeEncrypt panics: "+pi.Value, cs)
		return
	}
	if err != nil {
		c.Violate("protect-error", errStr(err), cs)
		return
	}
	c.Transitions++
	for i, p := range orig {
		if engine.Dump(p) != before[i] {
			c.Violate("protect-alters-original-payload/"+ref.Name(uint8(p.Type())), fmt.Sprintf("%s: payload %d changed during EncodeEncrypt", cs.Name, i), cs)
			return
		}
		if r, ok := engine.Overlaps(engine.Regions(p), b); ok {
			c.Violate("protect-returns-referenced-buffer", r.Path, cs)
			return
		}
	}
	for i := range orig {
		if i < len(held) && held[i] != orig[i] {
			c.Violate("protect-overwrites-callers-payload-list", fmt.Sprintf("%s: after EncodeEncrypt the caller's own slice of the payload list holds a different payload at index %d (the list was replaced in place instead of being replaced)", cs.Name, i), cs)
			return
		}
	}
	if len(lm.Payloads) != 1 || lm.Payloads[0].Type() != message.TypeSK {
		c.Violate("protect-payload-list", fmt.Sprintf("%s: after EncodeEncrypt the list has %d payloads", cs.Name, len(lm.Payloads)), cs)
		return
	}
	// the datagram handed to the caller is the caller's: overwriting it (a send buffer that is reused) changes neither
	// the message's Encrypted payload nor what the message encodes to (a retransmission re-encodes the message)
	{
		sent := append([]byte(nil), b...)
		d1 := engine.Dump(&lm.Payloads)
		for i := range b {
			b[i] = ^b[i]
		}
		var again []byte
		var aerr error
		engine.Catch(func() { again, aerr = lm.Encode() })
		if engine.Dump(&lm.Payloads) != d1 || aerr != nil || !bytes.Equal(again, sent) {
			c.Violate("protected-message-shares-memory-with-returned-datagram", fmt.Sprintf("%s: after the caller overwrote the datagram returned by EncodeEncrypt, the message's Encrypted payload changed or the message no longer encodes to what was sent (err %v)", cs.Name, aerr), cs)
			return
		}
	}
	// a second message object built over the protected message's payload list (the same SK payload sent under another
	// Message ID) is protected: the first message stays what it was
	if len(lm.Payloads) == 1 {
		dFirst := engine.Dump(&lm.Payloads)
		firstEnc, fe := lm.Encode()
		firstEnc = append([]byte(nil), firstEnc...)
		h2 := *lm.IKEHeader
		h2.MessageID += 3
		sib := &message.IKEMessage{IKEHeader: &h2, Payloads: lm.Payloads}
		ss := engine.NewSeam(nil, nil)
		ss.Stream = 77
		rst := engine.Install(ss)
		engine.Catch(func() { _, _ = ike.EncodeEncrypt(sib, sa, roleOf(cs.Role)) })
		rst()
		again, ae := lm.Encode()
		if engine.Dump(&lm.Payloads) != dFirst || (fe == nil && (ae != nil || !bytes.Equal(again, firstEnc))) {
			c.Violate("protect-alters-another-message", fmt.Sprintf("%s: protecting a second message object built over this message's payload list changed this message's Encrypted payload (or what it encodes to)", cs.Name), cs)
			return
		}
	}
	h1 := *lm.IKEHeader
	h0.NextPayload, h0.PayloadBytes, h1.NextPayload, h1.PayloadBytes = 0, nil, 0, nil
	if engine.Dump(&h0) != engine.Dump(&h1) {
		c.Violate("protect-alters-header", fmt.Sprintf("%s: header fields changed", cs.Name), cs)
		return
	}
	c.Count("protect_cases", 1)
}

func c20Unprotect(c *engine.Ctx, cs c20Case) {
	c.Evals++
	m := *cs.M
	ks := univ.MakeKeySet(cs.Suite, 2, 2)
	ske, ska := ks.DirKeys(cs.Role)
	_, inner, err := ref.EncodeChain(m.P, ref.Lib{})
	if err != nil {
		return
	}
	pad := (16 - (len(inner)+1)%16) % 16
	wire, err := ref.Protect(ks.Suite, ske, ska, m, ref.Lib{}, univ.Pat(16, 1), univ.Pat(pad, 2))
	if err != nil {
		return
	}
	sa, err := univ.NewSA(ks)
	if err != nil {
		return
	}
	buf := make([]byte, len(wire)+64)
	b := buf[32 : 32+len(wire)]
	copy(b, wire)
	var got *message.IKEMessage
	if pi := engine.Catch(func() { got, err = ike.DecodeDecrypt(b, nil, sa, roleOf(!cs.Role)) }); pi != nil || err != nil {
		c.Count("unprotect_not_accepted", 1)
		return
	}
	c.Transitions++
	if !bytes.Equal(b, wire) {
		c.Note("unprotection-wrote-into-its-input")
	}
	if r, ok := engine.Overlaps(engine.Regions(&got.Payloads), buf); ok {
		c.Violate("unprotected-field-aliases-input/"+fieldOf(r.Path), fmt.Sprintf("%s: %s shares memory with the receive buffer", cs.Name, r.Path), cs)
		return
	}
	d0 := dumpMsg(got)
	for i := range buf {
		buf[i] = ^buf[i]
	}
	if dumpMsg(got) != d0 {
		c.Violate("unprotected-message-changes-with-input-buffer", cs.Name, cs)
		return
	}
	c.Count("unprotect_cases", 1)
}

func hasAKA(m ref.Msg) bool {
	for _, p := range m.P {
		if p.T == ref.PEAP && p.EAP != nil && p.EAP.Method == 50 && len(p.EAP.AKA) > 1 {
			return true
		}
	}
	return false
}

func decodedHasAKA(m *message.IKEMessage) bool {
	for _, p := range m.Payloads {
		if e, ok := p.(*message.PayloadEap); ok && e.EAP != nil && e.EAP.EapTypeData != nil && uint8(e.EAP.EapTypeData.Type()) == 50 {
			return true
		}
	}
	return false
}

// c20ForeignAKA: datagrams whose EAP-AKA' payload carries several attribute types without a setter.
func c20ForeignAKA() [][]byte {
	var out [][]byte
	sets := [][]ref.AKAAttr{
		{{T: 129, V: append([]byte{0, 0}, univ.Pat(16, 1)...)}, {T: 135, V: []byte{0, 0}}, {T: 136, V: []byte{0x80, 0}}},
		{{T: ref.AtRAND, V: univ.Pat(16, 2)}, {T: 12, V: []byte{0x40, 0}}, {T: 19, V: []byte{0, 3}}, {T: 130, V: append([]byte{0, 0}, univ.Pat(12, 3)...)}, {T: 135, V: []byte{0, 0}}},
		{{T: 4, V: univ.Pat(14, 4)}, {T: 22, V: []byte{0, 1}}},
		// repeated attributes: a server lists one AT_KDF per key derivation function it offers (RFC 5448 3.2); repeated
		// skippable attributes
		{{T: ref.AtRAND, V: univ.Pat(16, 5)}, {T: ref.AtKDF, V: []byte{0, 3}}, {T: ref.AtKDF, V: []byte{0, 2}}, {T: ref.AtKDF, V: []byte{0, 1}}, {T: ref.AtKDFInput, V: univ.Pat(7, 6)}},
		{{T: ref.AtKDF, V: []byte{0, 1}}, {T: ref.AtKDF, V: []byte{0, 1}}, {T: 135, V: []byte{0, 0}}, {T: 135, V: []byte{0, 1}}, {T: 135, V: []byte{0, 2}}, {T: 135, V: []byte{0, 3}}},
		{{T: ref.AtRAND, V: univ.Pat(16, 7)}, {T: ref.AtRAND, V: univ.Pat(16, 8)}, {T: ref.AtRES, V: univ.Pat(5, 9)}, {T: ref.AtRES, V: univ.Pat(9, 10)}, {T: ref.AtCheckcode, V: nil}, {T: ref.AtCheckcode, V: univ.Pat(20, 11)}},
	}
	for _, at := range sets {
		m := ref.Msg{H: univ.BaseHdr, P: []ref.Payload{{T: ref.PEAP, EAP: &ref.EAP{Code: 1, ID: 3, Method: 50, Sub: 1, AKA: at}}}}
		if b, err := ref.Encode(m, ref.Lib{}); err == nil {
			out = append(out, b)
		}
	}
	return out
}
