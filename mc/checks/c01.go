package checks

import (
	"bytes"
	"encoding/json"
	"fmt"
	"hash"

	ike "github.com/free5gc/ike"
	"github.com/free5gc/ike/message"
	"github.com/free5gc/ike/security"

	"verif/mc/engine"
	"verif/mc/ref"
	"verif/mc/univ"
)

// C01 — protected round trip between opposite roles of one IKE SA.

type c01Case struct {
	K         string  `json:"k"` // rt | nil
	Name      string  `json:"name"`
	M         ref.Msg `json:"m"`
	Suite     int     `json:"suite"`
	Pattern   int     `json:"pattern"`
	SenderI   bool    `json:"sender_initiator"`
	ParseH    bool    `json:"parsed_header"`
	Env       []int   `json:"env,omitempty"` // choice prefix for the random-source seam
	Fits      bool    `json:"fits"`
	Warm      int     `json:"warm"`                  // 0: fresh key objects; 1/2: both key objects first carry a long / an empty message (history on one SA)
	PadOctet  int     `json:"pad_octet"`             // > 0: the random source serves the constant octet PadOctet-1 (every outcome of the random padding)
	HMode     int     `json:"header_mode,omitempty"` // with ParseH: 0 header parsed from the datagram; 1 from its first 28 octets only; 2 from a receive buffer that is reused before DecodeDecrypt runs on a copy; 3 built with NewHeader from peeked fields
	Derived   int     `json:"derived,omitempty"`     // 1: the sender's SA comes from GenerateKeyForIKESA and the receiver is assembled from the SK_* fields that SA exports; 2: the sender holds only the objects protecting needs
	FailFirst int     `json:"fail_first,omitempty"`  // > 0: a first protection attempt fails (1..3: the random source fails at read FailFirst-1; 4: incomplete key set) and the caller retries with the same message object
}

// warmMsg is the message a "used" SA has carried before the case under test.
func warmMsg(w int) ref.Msg {
	m := ref.Msg{H: univ.BaseHdr}
	m.H.MsgID = 77
	if w == 1 || w == 3 {
		m.P = []ref.Payload{{T: ref.PCERT, B: 4, Data: univ.Pat(300, 12)}, {T: ref.PKE, Group: 14, Data: univ.Pat(256, 11)}, {T: ref.PNonce, Data: univ.Pat(61, 3)}}
	}
	return m
}

// warmUp makes sender and receiver key objects carry one message in the given direction.
func warmUp(saS, saR *security.IKESAKey, senderI bool, w int) error {
	if w == 0 {
		return nil
	}
	if w == 4 || w == 5 {
		// the caller used the exported hash objects of both key objects for computations of its own (AUTH payload
		// octets, a rekey SKEYSEED, a checksum it verified itself) and left them as they were: Reset, Write, Sum
		// (w == 4: the sender's objects, w == 5: the receiver's — if both ends did the same, both would be wrong alike)
		for _, sa := range []*security.IKESAKey{map[int]*security.IKESAKey{4: saS, 5: saR}[w]} {
			for _, h := range []hash.Hash{sa.Integ_i, sa.Integ_r, sa.Prf_d, sa.Prf_i, sa.Prf_r} {
				if h != nil {
					h.Reset()
					h.Write(univ.Pat(37, 5))
					h.Sum(nil)
				}
			}
		}
		return nil
	}
	lm, err := univ.Build(warmMsg(w))
	if err != nil {
		return err
	}
	seam := engine.NewSeam(nil, nil)
	seam.Stream = 999
	restore := engine.Install(seam)
	b, err := ike.EncodeEncrypt(lm, saS, roleOf(senderI))
	restore()
	if err != nil {
		return err
	}
	if w == 3 {
		// the receiver first sees a burst of damaged datagrams (an attacker, a noisy link): twelve in a row, each
		// refused; the genuine one follows in the case itself
		for i := 0; i < 12; i++ {
			x := append([]byte(nil), b...)
			x[len(x)-1-i%8] ^= 0x40
			if _, derr := ike.DecodeDecrypt(x, nil, saR, roleOf(!senderI)); derr == nil {
				return fmt.Errorf("damaged datagram accepted")
			}
		}
		return nil
	}
	_, err = ike.DecodeDecrypt(b, nil, saR, roleOf(!senderI))
	return err
}

func roleOf(initiator bool) message.Role {
	if initiator {
		return message.Role_Initiator
	}
	return message.Role_Responder
}

func protectedFits(m ref.Msg, icv int) bool {
	_, inner, err := ref.EncodeChain(m.P, ref.Lib{})
	if err != nil {
		return false
	}
	pt := (len(inner)/16 + 1) * 16
	return 4+16+pt+icv <= 0xffff
}

func init() {
	engine.Register(&engine.Check{
		ID:    "C01",
		Level: "model_checking",
		Rule: "message universe (payload sequences up to the depth bound over the alphabet; field sweeps spread over the suites) × 9 suites × 2 sender roles × receiver header mode {nil, ParseHeader} × key patterns, sender and receiver on separately built key objects; " +
			"random-source answers (content patterns, short reads) explored with <= 1 deviation (quick) / 2 (thorough) on every single-payload message; plus the nil-key path. Every case runs EncodeEncrypt/DecodeDecrypt of the real code; a state is a distinct protected datagram, distinct_nontrivial counts distinct protected datagrams whose unprotection returned >= 1 payload",
		Assumptions: []string{"key values are drawn from a pattern alphabet (all-zero, all-0xFF, counting, seeded); key contents do not influence control flow in this library",
			"IV/padding outcomes: the scripted source serves a non-repeating stream, all-zero, all-0xFF and 1-octet short reads"},
		Run: runC01,
		Replay: func(c *engine.Ctx, raw json.RawMessage) {
			var cs c01Case
			unmarshalCase(raw, &cs)
			evalC01(c, cs)
		},
	})
}

func runC01(c *engine.Ctx) {
	patterns := []int{2, 3 + int(c.Seed%5)}
	if c.Thorough() {
		patterns = []int{0, 1, 2, 3 + int(c.Seed%5)}
	}
	univ.Messages(depthFor(c), func(name string, m ref.Msg) {
		if !c.Mine() {
			return
		}
		evalC01(c, c01Case{K: "nil", Name: name, M: m, Fits: true})
		for si := 0; si < 9; si++ {
			for _, pat := range patterns {
				for _, sI := range []bool{true, false} {
					for _, ph := range []bool{false, true} {
						evalC01(c, c01Case{K: "rt", Name: name, M: m, Suite: si, Pattern: pat, SenderI: sI, ParseH: ph, Fits: true})
						if pat == 2 {
							evalC01(c, c01Case{K: "rt", Name: name, M: m, Suite: si, Pattern: pat, SenderI: sI, ParseH: ph, Fits: true, Warm: 1 + (si+b2int(sI)+b2int(ph))%2})
							if !ph && len(m.P) <= 1 {
								evalC01(c, c01Case{K: "rt", Name: name, M: m, Suite: si, Pattern: pat, SenderI: sI, Fits: true, Warm: 3})
								evalC01(c, c01Case{K: "rt", Name: name, M: m, Suite: si, Pattern: pat, SenderI: sI, ParseH: si%2 == 0, Fits: true, Warm: 4})
								evalC01(c, c01Case{K: "rt", Name: name, M: m, Suite: si, Pattern: pat, SenderI: sI, ParseH: si%2 == 1, Fits: true, Warm: 5})
								evalC01(c, c01Case{K: "rt", Name: name, M: m, Suite: si, Pattern: pat, SenderI: sI, Fits: true, Derived: 1})
								evalC01(c, c01Case{K: "rt", Name: name, M: m, Suite: si, Pattern: pat, SenderI: sI, Fits: true, Derived: 2})
							}
							if ph {
								// other ways a receiver may have obtained the header object
								for hm := 1; hm <= 3; hm++ {
									evalC01(c, c01Case{K: "rt", Name: name, M: m, Suite: si, Pattern: pat, SenderI: sI, ParseH: true, HMode: hm, Fits: true})
								}
							} else if len(m.P) <= 1 {
								// a failed first attempt followed by a retry with the same message object
								for ff := 1; ff <= 4; ff++ {
									evalC01(c, c01Case{K: "rt", Name: name, M: m, Suite: si, Pattern: pat, SenderI: sI, Fits: true, FailFirst: ff})
								}
							}
						}
					}
				}
			}
		}
		if len(m.P) <= 1 {
			// environment answers, deviation-bounded
			bound := 1
			if c.Thorough() {
				bound = 2
			}
			for si := 0; si < 9; si++ {
				for _, sI := range []bool{true, false} {
					base := c01Case{K: "rt", Name: name, M: m, Suite: si, Pattern: 2, SenderI: sI, Fits: true}
					st := engine.Explore(bound, 0, func(r *engine.Run) {
						cs := base
						cs.Env = nil
						evalC01env(c, cs, r)
					}, func(r *engine.Run) {})
					c.Count("env_executions", st.Executions)
				}
			}
		}
	})
	// the protected form around the 16-bit limit of the SK payload: every inner length in a window
	// around the largest one that still fits, all suites, both roles
	for inner := 65466; inner <= 65496; inner++ {
		for si := 0; si < 9; si++ {
			if !c.Mine() {
				continue
			}
			m := ref.Msg{H: univ.BaseHdr, P: []ref.Payload{{T: ref.PNonce, Data: univ.Pat(inner-4, inner)}}}
			icv := ref.Suites()[si].Integ.OutLen
			for _, sI := range []bool{true, false} {
				evalC01(c, c01Case{K: "rt", Name: fmt.Sprintf("protected.inner=%d", inner), M: m, Suite: si, Pattern: 2, SenderI: sI, ParseH: inner%2 == 0, Fits: protectedFits(m, icv)})
			}
		}
	}
	// every outcome of the random padding / IV that a constant source can produce: all 256 octet values × all
	// 16 alignments of the inner payload chain (a receiver that guesses the padding convention from the pad
	// octets shows here)
	for n := 0; n < 16; n++ {
		for oct := 0; oct < 256; oct++ {
			if !c.Mine() {
				continue
			}
			m := ref.Msg{H: univ.BaseHdr, P: []ref.Payload{{T: ref.PNonce, Data: univ.Pat(n+1, n)}}}
			for _, si := range []int{0, 4, 8} {
				evalC01(c, c01Case{K: "rt", Name: fmt.Sprintf("padding.octet×align=%d/%d", oct, n), M: m, Suite: si, Pattern: 2, SenderI: (n+oct)%2 == 0, ParseH: oct%2 == 0, Fits: true, PadOctet: oct + 1})
			}
		}
	}
	i := 0
	univ.Sweeps(c.Thorough(), func(name string, m ref.Msg, fits bool) {
		i++
		if !fits || !c.Mine() {
			return
		}
		si := i % 9
		icv := ref.Suites()[si].Integ.OutLen
		evalC01(c, c01Case{K: "rt", Name: name, M: m, Suite: si, Pattern: 2, SenderI: i%2 == 0, ParseH: i%4 < 2, Fits: protectedFits(m, icv)})
		// the same entry points without keys: every message too large to be protected (chains beyond 64 KiB), and a
		// share of the others
		if !protectedFits(m, icv) || i%16 == 0 {
			evalC01(c, c01Case{K: "nil", Name: name, M: m, Fits: true})
		}
	})
}

func evalC01(c *engine.Ctx, cs c01Case) {
	if len(cs.Env) > 0 {
		r := engine.NewReplayRun(cs.Env)
		evalC01env(c, cs, r)
		return
	}
	evalC01env(c, cs, nil)
}

func evalC01env(c *engine.Ctx, cs c01Case, r *engine.Run) {
	c.Evals++
	c.Transitions += 2
	m := cs.M
	if cs.K == "nil" {
		lm, err := univ.Build(m)
		if err != nil {
			c.Violate("nilkey/build-error", errStr(err), cs)
			return
		}
		lm2, _ := univ.Build(m)
		var b1, b2 []byte
		var e1, e2 error
		pi := engine.Catch(func() { b1, e1 = ike.EncodeEncrypt(lm, nil, message.Role_Initiator); b2, e2 = lm2.Encode() })
		if pi != nil {
			c.Violate(pi.Sig(), "EncodeEncrypt(nil key) panics: "+pi.Value, cs)
			return
		}
		if (e1 == nil) != (e2 == nil) || !bytes.Equal(b1, b2) {
			c.Violate("nilkey/encode-differs", fmt.Sprintf("%s: EncodeEncrypt(nil) gives (%d octets, err=%v), Encode gives (%d octets, err=%v)", cs.Name, len(b1), e1, len(b2), e2), cs)
			return
		}
		if e1 != nil {
			return
		}
		for _, ph := range []bool{false, true} {
			var hdr *message.IKEHeader
			if ph {
				hdr, _ = message.ParseHeader(b1)
			}
			var got *message.IKEMessage
			var derr error
			pi := engine.Catch(func() { got, derr = ike.DecodeDecrypt(b1, hdr, nil, message.Role_Responder) })
			if pi != nil {
				c.Violate(pi.Sig(), fmt.Sprintf("DecodeDecrypt(nil key, parsed header=%v) of %s panics: %s", ph, cs.Name, pi.Value), cs)
				return
			}
			if derr != nil || got == nil {
				c.Violate("nilkey/decode-error", fmt.Sprintf("%s: %v", cs.Name, derr), cs)
				return
			}
			if g := univ.Project(got); g.Canon() != m.Canon() {
				c.Violate("nilkey/fields/"+ref.FirstDiff(m.P, g.P), fmt.Sprintf("%s: got %s", cs.Name, trs(g.Canon())), cs)
				return
			}
		}
		// the message object is used again (answering with an empty list on the request object, re-sending after
		// Payloads.Reset(), a reply built on the decoded request): the plain path carries the list it holds now
		if len(m.P) > 0 {
			dm := new(message.IKEMessage)
			_ = dm.Decode(append([]byte(nil), b1...))
			for oi, obj := range []*message.IKEMessage{lm, dm} {
				for _, keep := range []int{1, 0} {
					if keep > len(obj.Payloads) {
						continue
					}
					if keep == 0 {
						obj.Payloads.Reset()
					} else {
						obj.Payloads = obj.Payloads[:keep]
					}
					var b3 []byte
					var e3, derr error
					var got *message.IKEMessage
					if pi := engine.Catch(func() {
						if b3, e3 = ike.EncodeEncrypt(obj, nil, message.Role_Responder); e3 == nil {
							got, derr = ike.DecodeDecrypt(b3, nil, nil, message.Role_Initiator)
						}
					}); pi != nil {
						c.Violate(pi.Sig(), "plain path on a used message object panics: "+pi.Value, cs)
						return
					}
					if e3 != nil {
						continue
					}
					want := ref.Msg{H: m.H, P: m.P[:keep]}
					if derr != nil || got == nil {
						c.Violate("nilkey/used-message-object/decode-error", fmt.Sprintf("%s (object %d, list cut to %d): %v", cs.Name, oi, keep, derr), cs)
						return
					}
					if g := univ.Project(got); g.Canon() != want.Canon() {
						c.Violate("nilkey/used-message-object/fields", fmt.Sprintf("%s: message object %s, payload list cut to %d, sent without keys: receiver gets %s", cs.Name, []string{"encoded before", "decoded from a datagram"}[oi], keep, trs(g.Canon())), cs)
						return
					}
				}
			}
		}
		c.Traces++
		return
	}

	ks := univ.MakeKeySet(cs.Suite, 2, cs.Pattern)
	saS, err1 := univ.NewSA(ks)
	saR, err2 := univ.NewSA(ks)
	if err1 != nil || err2 != nil {
		c.Violate("sa-construction", fmt.Sprintf("%v %v", err1, err2), cs)
		return
	}
	switch cs.Derived {
	case 1:
		// the sender derives its keys through the key schedule; the receiver (a standby, a test peer, an exported
		// key set) is built from the SK_* fields the derived object shows
		d := &security.IKESAKey{DhInfo: saS.DhInfo, EncrInfo: saS.EncrInfo, IntegInfo: saS.IntegInfo, PrfInfo: saS.PrfInfo}
		if err := d.GenerateKeyForIKESA(univ.Pat(40, cs.Pattern), univ.Pat(256, cs.Pattern+1), 11, 12); err != nil {
			c.Violate("sa-construction/derived", errStr(err), cs)
			return
		}
		ks.K = ref.IKEKeys{SKd: d.SK_d, SKai: d.SK_ai, SKar: d.SK_ar, SKei: d.SK_ei, SKer: d.SK_er, SKpi: d.SK_pi, SKpr: d.SK_pr}
		saS = d
		if saR, err2 = univ.NewSA(ks); err2 != nil {
			c.Violate("sa-construction/from-exported-fields", errStr(err2), cs)
			return
		}
	case 2:
		// the sender holds only what protecting in its role needs according to the library's own checks: the
		// responder-side objects (which encryptMsg insists on for either role) and, for the initiator, its own
		if !cs.SenderI {
			saS.Encr_i, saS.Integ_i = nil, nil
		}
		saS.Prf_i, saS.Prf_r, saS.Prf_d = nil, nil, nil
	}
	if cs.Warm != 0 {
		var werr error
		if pi := engine.Catch(func() { werr = warmUp(saS, saR, cs.SenderI, cs.Warm) }); pi != nil || werr != nil {
			c.Violate("warm-up-failed", fmt.Sprintf("%v %v", pi, werr), cs)
			return
		}
	}
	lm, err := univ.Build(m)
	if err != nil {
		c.Violate("build-error", errStr(err), cs)
		return
	}
	if cs.FailFirst > 0 {
		// first attempt fails; whatever it fails on, a later successful protection of the same message object
		// must carry the message the caller built
		var ferr error
		var fpi *engine.PanicInfo
		if cs.FailFirst <= 3 {
			script := make([]int, cs.FailFirst)
			script[cs.FailFirst-1] = 1
			fs := engine.NewSeam(engine.NewReplayRun(script), []int{engine.AnsA, engine.AnsErr})
			rst := engine.Install(fs)
			fpi = engine.Catch(func() { _, ferr = ike.EncodeEncrypt(lm, saS, roleOf(cs.SenderI)) })
			rst()
		} else {
			bad, _ := univ.NewSA(ks)
			bad.Encr_r = nil // refused for either role (the sender's own missing cipher object is outside every listed property: it panics for the initiator role)
			fs := engine.NewSeam(nil, nil)
			rst := engine.Install(fs)
			fpi = engine.Catch(func() { _, ferr = ike.EncodeEncrypt(lm, bad, roleOf(cs.SenderI)) })
			rst()
		}
		if fpi != nil {
			c.Violate(fpi.Sig(), fmt.Sprintf("EncodeEncrypt(%s, %v) panics in an attempt that must fail: %s", cs.Name, ks.Suite, fpi.Value), cs)
			return
		}
		if ferr == nil {
			c.Count("first_attempt_did_not_fail", 1) // fewer reads than the script covers
			return
		}
		c.Count("retries_after_failed_attempt", 1)
	}
	seam := engine.NewSeam(r, []int{engine.AnsA, engine.AnsZero, engine.AnsFF, engine.AnsShort})
	if cs.PadOctet > 0 {
		seam.Default = engine.AnsConst + cs.PadOctet - 1
	}
	restore := engine.Install(seam)
	var b []byte
	pi := engine.Catch(func() { b, err = ike.EncodeEncrypt(lm, saS, roleOf(cs.SenderI)) })
	restore()
	if cs.FailFirst > 0 && err != nil && pi == nil {
		c.Count("retry_refused", 1) // no claim: the property speaks about messages that were protected
		return
	}
	if r != nil {
		cs.Env = r.Choices()
	}
	if pi != nil {
		c.Violate(pi.Sig(), fmt.Sprintf("EncodeEncrypt(%s, %v) panics: %s", cs.Name, ks.Suite, pi.Value), cs)
		return
	}
	if !cs.Fits {
		c.Count("outside_domain(protected form oversize)", 1)
		if err == nil {
			c.Violate("oversize-accepted/"+dim(cs.Name), fmt.Sprintf("%s protects to %d octets without error although the SK payload cannot fit", cs.Name, len(b)), cs)
		}
		return
	}
	if err != nil {
		c.Violate("protect-error/"+kinds(m.P), fmt.Sprintf("%s under %v sender initiator=%v: %s", cs.Name, ks.Suite, cs.SenderI, errStr(err)), cs)
		return
	}
	var hdr *message.IKEHeader
	if cs.ParseH {
		switch cs.HMode {
		case 0:
			hdr, err = message.ParseHeader(b)
		case 1:
			hdr, err = message.ParseHeader(b[:28:28])
		case 2:
			rx := append([]byte(nil), b...)
			hdr, err = message.ParseHeader(rx)
			for i := range rx {
				rx[i] = 0xA5 // the receive buffer takes the next datagram; DecodeDecrypt gets the caller's copy b
			}
		case 3:
			var ph *message.IKEHeader
			ph, err = message.ParseHeader(b)
			if err == nil {
				hdr = message.NewHeader(ph.InitiatorSPI, ph.ResponderSPI, ph.ExchangeType, ph.Flags&message.ResponseBitCheck != 0, ph.Flags&message.InitiatorBitCheck != 0, ph.MessageID, ph.NextPayload, nil)
				hdr.Flags = ph.Flags
				hdr.MajorVersion, hdr.MinorVersion = ph.MajorVersion, ph.MinorVersion
			}
		}
		if err != nil {
			c.Violate("parse-header-error", errStr(err), cs)
			return
		}
	}
	var got *message.IKEMessage
	pi = engine.Catch(func() { got, err = ike.DecodeDecrypt(b, hdr, saR, roleOf(!cs.SenderI)) })
	c.Traces++
	tag := fmt.Sprintf("sender=%s/hdr=%v", map[bool]string{true: "I", false: "R"}[cs.SenderI], cs.ParseH)
	if cs.HMode != 0 {
		tag += fmt.Sprintf("(mode %d)", cs.HMode)
	}
	if cs.FailFirst != 0 {
		tag += "/retry-after-failed-attempt"
	}
	if cs.Derived != 0 {
		tag += fmt.Sprintf("/key-set-%d", cs.Derived)
	}
	if cs.Warm != 0 {
		tag += "/used-sa"
	}
	if pi != nil {
		c.Violate(pi.Sig(), fmt.Sprintf("DecodeDecrypt(%s, %v, %s) panics: %s", cs.Name, ks.Suite, tag, pi.Value), cs)
		return
	}
	if err != nil || got == nil {
		c.Violate("unprotect-error/"+tag, fmt.Sprintf("%s under %v env=%v: %s", cs.Name, ks.Suite, seam.Answers(), errStr(err)), cs)
		return
	}
	g := univ.Project(got)
	if g.Canon() != m.Canon() {
		d := "header"
		if g.H == m.H {
			d = ref.FirstDiff(m.P, g.P)
		}
		c.Violate("roundtrip/"+tag+"/"+d, fmt.Sprintf("%s under %v: want %s got %s", cs.Name, ks.Suite, trs(m.Canon()), trs(g.Canon())), cs)
		return
	}
	h := engine.Hash64(b)
	if c.State(h) {
		c.States++
		if len(m.P) > 0 {
			c.Distinct(h)
		}
	}
	if r != nil && r.Deviations() > 0 {
		c.Count("env_deviating_executions", 1)
	}
	c.Sample("protected", map[string]interface{}{"name": cs.Name, "suite": ks.Suite.String(), "sender_initiator": cs.SenderI, "env": seam.Answers(), "wire": engine.Hex(trunc(b, 80))})
}

func b2int(b bool) int {
	if b {
		return 1
	}
	return 0
}
