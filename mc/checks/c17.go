package checks

import (
	"encoding/json"
	"fmt"
	"hash"

	ike "github.com/free5gc/ike"
	"github.com/free5gc/ike/message"
	"github.com/free5gc/ike/security"
	"github.com/free5gc/ike/security/dh"
	"github.com/free5gc/ike/security/encr"
	"github.com/free5gc/ike/security/integ"
	"github.com/free5gc/ike/security/prf"

	"verif/mc/engine"
	"verif/mc/ref"
	"verif/mc/univ"
)

// C17 — SA key objects are reusable: each operation behaves as on a fresh SA.

type c17Case struct {
	Suite int    `json:"suite"`
	PRF   int    `json:"prf"`
	Hist  []int  `json:"history"`
	Op    int    `json:"op"`
	Tier  string `json:"tier"`
	Deep  int    `json:"long_run_step,omitempty"` // > 0: the op is step Deep of the long linear run (the alphabet applied round after round to one object)
	From  []int  `json:"rekeyed_from,omitempty"`  // {suite, prf}: the object was keyed under that suite and used before it was keyed under Suite/PRF
}

type c17Op struct {
	name string
	run  func(sa *security.IKESAKey) string
}

func c17Msgs() []ref.Msg {
	h2 := univ.BaseHdr
	h2.MsgID, h2.Exch, h2.Flags = 9, 37, 0x20
	return []ref.Msg{
		{H: univ.BaseHdr, P: []ref.Payload{{T: ref.PNonce, Data: univ.Pat(20, 1)}, {T: ref.PNotify, B: 1, NType: 16388}}},
		{H: h2, P: []ref.Payload{{T: ref.PCERT, B: 4, Data: univ.Pat(150, 2)}, {T: ref.PIDi, B: 2, Data: []byte("x@y")}, {T: ref.PAUTH, B: 2, Data: univ.Pat(32, 3)}}},
		{H: h2},
		{H: univ.BaseHdr, P: []ref.Payload{{T: ref.PCERT, B: 4, Data: univ.Pat(20000, 9)}}},
	}
}

func c17Ops(si, prfIdx int, thorough bool) []c17Op {
	return c17OpsKS(univ.MakeKeySet(si, prfIdx, 2), univ.MakeKeySet(si, prfIdx, 3), thorough)
}

// c17OpsKS: the op alphabet for an SA that holds the keys of ks (other: an unrelated key set of the same suite).
func c17OpsKS(ks, other univ.KeySet, thorough bool) []c17Op {
	msgs := c17Msgs()
	var ops []c17Op
	protect := func(mi int, initiator bool, stream uint64) c17Op {
		return c17Op{fmt.Sprintf("protect(msg%d,as=%s,iv#%d)", mi, rn(initiator), stream), func(sa *security.IKESAKey) string {
			lm, err := univ.Build(msgs[mi])
			if err != nil {
				return "build-error"
			}
			seam := engine.NewSeam(nil, nil)
			seam.Stream = stream
			restore := engine.Install(seam)
			defer restore()
			b, err := ike.EncodeEncrypt(lm, sa, roleOf(initiator))
			if err != nil {
				return "error"
			}
			// behavioural outcome: the independent peer, holding the same keys, accepts the datagram and reads
			// the message (which IV / padding octets were used is the implementation's business)
			ske, ska := ks.DirKeys(initiator)
			r, uerr := ref.Unprotect(ks.Suite, ske, ska, b, true)
			if uerr != nil {
				return "protected datagram refused by the independent peer: " + classifySK(uerr)
			}
			return "accepted by peer: " + r.H.Canon() + " [" + ref.CanonPayloads(r.Payloads) + "]"
		}}
	}
	protectFail := func(mi int, initiator bool, at int) c17Op {
		return c17Op{fmt.Sprintf("failing-protect(msg%d,as=%s,source fails at read %d)", mi, rn(initiator), at), func(sa *security.IKESAKey) string {
			lm, err := univ.Build(msgs[mi])
			if err != nil {
				return "build-error"
			}
			script := make([]int, at+1)
			script[at] = 1
			seam := engine.NewSeam(engine.NewReplayRun(script), []int{engine.AnsA, engine.AnsErr})
			restore := engine.Install(seam)
			defer restore()
			if _, err := ike.EncodeEncrypt(lm, sa, roleOf(initiator)); err != nil {
				return "error"
			}
			return "protected although the source failed"
		}}
	}
	mk := func(k univ.KeySet, mi int, senderI bool, ivseed int) []byte {
		ske, ska := k.DirKeys(senderI)
		_, inner, _ := ref.EncodeChain(msgs[mi].P, ref.Lib{})
		pad := (16 - (len(inner)+1)%16) % 16
		b, err := ref.Protect(k.Suite, ske, ska, msgs[mi], ref.Lib{}, univ.Pat(16, ivseed), univ.Pat(pad, ivseed+1))
		if err != nil {
			panic(err)
		}
		return b
	}
	unprotect := func(name string, wire []byte, asInitiator bool, parse bool) c17Op {
		return c17Op{name, func(sa *security.IKESAKey) string {
			var hdr *message.IKEHeader
			if parse {
				hdr, _ = message.ParseHeader(wire)
			}
			got, err := ike.DecodeDecrypt(append([]byte(nil), wire...), hdr, sa, roleOf(asInitiator))
			if err != nil {
				return "error"
			}
			return univ.Project(got).Canon()
		}}
	}
	child := func(el, ii int, nonce []byte) c17Op {
		return c17Op{fmt.Sprintf("child(aes%d,integ%d,nonce%d#%x)", el*8, ii, len(nonce), engine.Hash64(nonce)&0xff), func(sa *security.IKESAKey) string {
			ch := &security.ChildSAKey{EncrKInfo: encr.StrToKType(univ.EncrName(el))}
			if ii >= 0 {
				ch.IntegKInfo = integ.StrToKType(univ.IntegName(ref.Integs[ii]))
			}
			// the nonces arrive in the caller's work buffer (one per length, refilled for every exchange)
			if err := ch.GenerateKeyForChildSA(sa, inCallerBuffer(nonce)); err != nil {
				return "error"
			}
			return fmt.Sprintf("%x|%x|%x|%x", ch.InitiatorToResponderEncryptionKey, ch.InitiatorToResponderIntegrityKey, ch.ResponderToInitiatorEncryptionKey, ch.ResponderToInitiatorIntegrityKey)
		}}
	}
	// authentic but malformed: the checksum is genuine (made with the right key), what it covers is not a message
	authBad := func(kind int, senderI bool) []byte {
		ske, ska := ks.DirKeys(senderI)
		h := msgs[0].H
		h.MsgID = uint32(40 + kind)
		switch kind {
		case 0: // pad-length octet larger than the plaintext
			return ref.ProtectRaw(ks.Suite, ske, ska, h, 40, append(univ.Pat(31, 3), 0xfe), univ.Pat(16, 50), -1)
		case 1: // inner chain that does not parse (a generic header announcing more than there is)
			return ref.ProtectRaw(ks.Suite, ske, ska, h, 40, append([]byte{0, 0, 0xff, 0xf0, 1, 2, 3, 4, 5, 6, 7, 8, 9, 10, 11}, 0), univ.Pat(16, 51), -1)
		case 2: // ciphertext that is not a whole number of blocks
			return ref.ProtectRaw(ks.Suite, ske, ska, h, 40, append(univ.Pat(31, 4), 0), univ.Pat(16, 52), 23)
		default: // a critical payload of an unsupported type inside
			return ref.ProtectRaw(ks.Suite, ske, ska, h, 200, append([]byte{0, 0x80, 0, 8, 1, 2, 3, 4, 9, 9, 9, 9, 9, 9, 9}, 7), univ.Pat(16, 53), -1)
		}
	}
	// a genuine message from a peer that pads to the maximum (Pad Length 255) or by several blocks
	mkPad := func(mi int, senderI bool, padLen, ivseed int) []byte {
		ske, ska := ks.DirKeys(senderI)
		_, inner, _ := ref.EncodeChain(msgs[mi].P, ref.Lib{})
		pad := (16 - (len(inner)+1)%16) % 16
		for pad+16 <= padLen {
			pad += 16
		}
		b, err := ref.Protect(ks.Suite, ske, ska, msgs[mi], ref.Lib{}, univ.Pat(16, ivseed), univ.Pat(pad, ivseed+1))
		if err != nil {
			panic(err)
		}
		return b
	}
	gI := mk(ks, 0, true, 10)  // from initiator, to be unprotected as responder
	gR := mk(ks, 1, false, 20) // from responder, to be unprotected as initiator
	flip := func(b []byte, pos int) []byte { x := append([]byte(nil), b...); x[pos] ^= 0x04; return x }
	ops = append(ops,
		protect(0, true, 1), protect(1, false, 2), protect(1, true, 5), protect(2, false, 6),
		unprotect("unprotect(tampered header)", flip(gI, 18), false, false),
		unprotect("unprotect(forged, message id raised)", func() []byte {
			x := append([]byte(nil), gI...)
			x[20], x[21], x[22], x[23] = 0xff, 0xff, 0xff, 0xf0
			return x
		}(), false, false),
		unprotect("unprotect(genuine I->R, higher message id)", mk(ks, 1, true, 30), false, true),
		unprotect("unprotect(genuine I->R)", gI, false, false), unprotect("unprotect(genuine R->I)", gR, true, true),
		unprotect("unprotect(tampered ciphertext)", flip(gI, 28+4+16+3), false, false), unprotect("unprotect(tampered icv)", flip(gR, len(gR)-1), true, false),
		unprotect("unprotect(truncated)", gI[:len(gI)-7], false, false), unprotect("unprotect(short sk body)", append(append([]byte(nil), gI[:30]...), 0, 9, 1, 2, 3, 4, 5), false, false),
		unprotect("unprotect(reflected)", gI, true, false), unprotect("unprotect(cross-key)", mk(other, 0, true, 10), false, false),
		child(16, 1, univ.Pat(32, 5)), child(32, -1, nil), child(16, 1, univ.Pat(32, 6)),
		unprotect("unprotect(genuine I->R, SK generic header with critical flag and reserved bits)", func() []byte {
			x := mk(ks, 0, true, 62)
			x[29] = 0xff
			_, ska := ks.DirKeys(true)
			icv := ks.Suite.Integ.OutLen
			copy(x[len(x)-icv:], ref.HMAC(ks.Suite.Integ.Digest, ska, x[:len(x)-icv])[:icv])
			return x
		}(), false, true),
		unprotect("unprotect(genuine I->R, empty payload list)", mk(ks, 2, true, 63), false, false),
		unprotect("unprotect(tampered header length)", func() []byte { x := append([]byte(nil), gI...); x[27] ^= 0x08; return x }(), false, true),
		unprotect("unprotect(tampered SK header flags)", flip(gI, 29), false, false),
		unprotect("unprotect(genuine I->R, pad length 255)", mkPad(0, true, 255, 60), false, false), unprotect("unprotect(genuine R->I, pad length 40..55)", mkPad(1, false, 55, 61), true, true),
		c17Op{"caller computes a checksum of its own on the exported Integ_i and Integ_r objects", func(sa *security.IKESAKey) string {
			for _, h := range []hash.Hash{sa.Integ_i, sa.Integ_r} {
				if h != nil {
					h.Reset()
					h.Write(univ.Pat(37, 5))
					h.Sum(nil)
				}
			}
			return "ok"
		}},
		c17Op{"caller computes prf(SK_d, x) on the exported Prf_d object", func(sa *security.IKESAKey) string {
			if sa.Prf_d != nil {
				sa.Prf_d.Reset()
				sa.Prf_d.Write(univ.Pat(40, 77))
				sa.Prf_d.Sum(nil)
			}
			return "ok"
		}},
		protectFail(0, true, 0), protectFail(0, true, 1), protectFail(1, false, 1), protect(3, true, 7), protect(3, false, 8),
		unprotect("unprotect(authentic, impossible pad length)", authBad(0, true), false, false), unprotect("unprotect(authentic, inner chain does not parse)", authBad(1, true), false, true),
		unprotect("unprotect(authentic, ciphertext not block aligned)", authBad(2, false), true, false), unprotect("unprotect(authentic, critical unsupported payload inside)", authBad(3, false), true, false),
		c17Op{"String()", func(sa *security.IKESAKey) string {
			// accessors and formatting of the key object between operations
			_ = sa.String()
			_ = fmt.Sprintf("%v %+v", sa, sa.IntegInfo)
			if p, err := sa.ToProposal(); err != nil || p == nil {
				return "ToProposal error"
			}
			return "ok"
		}},
	)
	if thorough {
		ops = append(ops,
			protect(2, true, 3), protect(0, false, 4), protect(1, true, 1),
			unprotect("unprotect(genuine R->I #2)", mk(ks, 2, false, 40), true, false),
			unprotect("unprotect(tampered header R->I)", flip(gR, 21), true, false), unprotect("unprotect(garbage)", univ.Pat(90, 7), true, false),
			unprotect("unprotect(prefix 40)", gR[:40], true, false), unprotect("unprotect(header only)", gI[:28], false, false),
			child(24, 0, univ.Pat(64, 6)), child(16, 2, univ.Pat(65, 7)), child(32, 1, []byte{}),
		)
	}
	return ops
}

func rn(i bool) string {
	if i {
		return "I"
	}
	return "R"
}

func c17Fresh(si, prfIdx int) *security.IKESAKey {
	sa, err := univ.NewSA(univ.MakeKeySet(si, prfIdx, 2))
	if err != nil {
		panic(err)
	}
	return sa
}

func c17Apply(op c17Op, sa *security.IKESAKey) string {
	var out string
	if pi := engine.Catch(func() { out = op.run(sa) }); pi != nil {
		return "panic " + pi.Sig()
	}
	return out
}

func init() {
	engine.Register(&engine.Check{
		ID:    "C17",
		Level: "model_checking",
		Rule: "explicit-state search over one real IKESAKey object per suite (9 suites; thorough: × 3 PRFs): ops = protect as either role (messages × IV scripts), unprotect genuine messages of both directions (header parsed or not), unprotect tampered ciphertext / tampered ICV / tampered header, truncated, short SK body, garbage, reflected and cross-key messages, derive Child SAs (configurations × nonces) — 17 ops (quick) / 28 ops (thorough); state = canonical dump of the whole SA object graph incl. the hash and cipher internals; successors by replay from a fresh object; search to closure. " +
			"Oracle on every transition: the op's behavioural outcome (protected datagram accepted and read by the independent peer, decoded projection, error-ness, child keys) equals its outcome on a freshly built SA with the same keys; the fresh outcomes are validated once against the reference (protected bytes accepted by the independent peer, child keys = RFC). Re-keyed objects: for every suite × PRF, an object keyed by GenerateKeyForIKESA under every other suite × PRF (26), used (9 ops), keyed again under this suite, then the whole alphabet in sequence — each outcome equals the outcome on an object keyed once with the same inputs (keys validated against the reference derivation by the independent peer). distinct_nontrivial = distinct (state, op) transitions compared",
		Assumptions: []string{"closure of the concrete state space covers histories of every length over the op alphabet, including the 64 of the quantifier"},
		Run:         runC17,
		Replay: func(c *engine.Ctx, raw json.RawMessage) {
			var cs c17Case
			unmarshalCase(raw, &cs)
			if len(cs.From) == 2 {
				c17Rekeyed(c, cs.From[0], cs.From[1], cs.Suite, cs.PRF)
				return
			}
			ops := c17Ops(cs.Suite, cs.PRF, cs.Tier == "thorough")
			if cs.Deep > 0 {
				fresh := make([]string, len(ops))
				for i, op := range ops {
					fresh[i] = c17Apply(op, c17Fresh(cs.Suite, cs.PRF))
				}
				c17Long(c, cs.Suite, cs.PRF, ops, fresh, cs.Deep)
				return
			}
			sa := c17Fresh(cs.Suite, cs.PRF)
			for _, h := range cs.Hist {
				c17Apply(ops[h], sa)
			}
			got := c17Apply(ops[cs.Op], sa)
			want := c17Apply(ops[cs.Op], c17Fresh(cs.Suite, cs.PRF))
			if got != want {
				c.Violate("history-dependent/"+c17Class(ops[cs.Op].name), fmt.Sprintf("suite %d: %s after %d operations differs from a fresh SA", cs.Suite, ops[cs.Op].name, len(cs.Hist)), cs)
			}
		},
	})
}

func c17Class(name string) string {
	for i := 0; i < len(name); i++ {
		if name[i] == '(' {
			if name[:i] == "unprotect" {
				return name
			}
			return name[:i]
		}
	}
	return name
}

func runC17(c *engine.Ctx) {
	prfs := []int{2}
	if c.Thorough() {
		prfs = []int{0, 1, 2}
	}
	for si := 0; si < 9; si++ {
		for _, prfIdx := range prfs {
			if !c.Mine() {
				continue
			}
			ops := c17Ops(si, prfIdx, c.Thorough())
			ks := univ.MakeKeySet(si, prfIdx, 2)
			// fresh outcomes, validated against the reference once
			fresh := make([]string, len(ops))
			for i, op := range ops {
				fresh[i] = c17Apply(op, c17Fresh(si, prfIdx))
				c17ValidateFresh(c, ks, si, prfIdx, i, op.name, fresh[i])
			}
			sops := make([]engine.SSOp, len(ops))
			for i := range ops {
				op := ops[i]
				sops[i] = engine.SSOp{Name: op.name, Apply: func(o interface{}) string { return c17Apply(op, o.(*security.IKESAKey)) }}
			}
			maxStates := 4000
			if c.Thorough() {
				maxStates = 40000
			}
			res := engine.Search(func() interface{} { return c17Fresh(si, prfIdx) }, sops,
				func(o interface{}) uint64 { return engine.DumpHash(o) },
				func(hist []int, oi int, obj interface{}, outcome string) bool {
					c.Evals++
					if outcome != fresh[oi] {
						c.Violate("history-dependent/"+c17Class(ops[oi].name), fmt.Sprintf("suite %v: %s after history %v gives %s, on a fresh SA %s", ks.Suite, ops[oi].name, histNames(ops, hist), trs(outcome), trs(fresh[oi])),
							c17Case{Suite: si, PRF: prfIdx, Hist: hist, Op: oi, Tier: c.Tier})
					} else {
						c.Distinct(engine.Hash64([]byte(fmt.Sprint(si, prfIdx, hist, oi))))
					}
					if len(hist) == 2 {
						c.Sample("transition", map[string]interface{}{"suite": ks.Suite.String(), "history": histNames(ops, hist), "op": ops[oi].name, "outcome": trs(outcome)})
					}
					return true
				}, 0, maxStates)
			c.States += int64(res.States)
			c.Transitions += res.Transitions
			c.Traces += res.Transitions
			c.Count(fmt.Sprintf("states/suite%d/prf%d", si, prfIdx), int64(res.States))
			c17Long(c, si, prfIdx, ops, fresh, 0)
			// the object was keyed before under another suite (every other suite × PRF), used, and keyed again
			for fsi := 0; fsi < 9; fsi++ {
				for fp := 0; fp < 3; fp++ {
					if fsi != si || fp != prfIdx {
						c17Rekeyed(c, fsi, fp, si, prfIdx)
					}
				}
			}
			if res.Closed {
				c.Count("closed_searches", 1)
				c.Count("closure_depth_sum", int64(res.Depth))
			} else {
				c.Cap(fmt.Sprintf("state space of suite %d did not close within %d states; depth %d completed", si, res.States, res.Depth-1))
			}
		}
	}
}

// c17Long: the whole alphabet applied round after round to one object (the hundredth operation, the thousandth):
// volumes and counts that the breadth-first search cannot reach within its state bound. stopAt > 0 replays up to
// that step only.
func c17Long(c *engine.Ctx, si, prfIdx int, ops []c17Op, fresh []string, stopAt int) {
	rounds := 40
	if c.Thorough() {
		rounds = 200
	}
	sa := c17Fresh(si, prfIdx)
	step := 0
	for r := 0; r < rounds; r++ {
		for k := range ops {
			oi := (k + r) % len(ops) // rotate so that every op follows every other op over the rounds
			out := c17Apply(ops[oi], sa)
			step++
			c.Evals++
			c.Transitions++
			if out != fresh[oi] {
				c.Violate("history-dependent/long-run/"+c17Class(ops[oi].name), fmt.Sprintf("suite %d: %s as operation %d on one SA object gives %s, on a fresh SA %s", si, ops[oi].name, step, trs(out), trs(fresh[oi])),
					c17Case{Suite: si, PRF: prfIdx, Op: oi, Tier: c.Tier, Deep: step})
				return
			}
			if stopAt > 0 && step >= stopAt {
				return
			}
		}
	}
	c.Count("long_run_operations", int64(step))
	if stopAt > 0 {
		return
	}
	// bursts: every op twelve times in a row on one object (counters of consecutive failures, of repeated inputs),
	// then the whole alphabet once
	for b := range ops {
		sa := c17Fresh(si, prfIdx)
		for k := 0; k < 12; k++ {
			c17Apply(ops[b], sa)
		}
		for oi := range ops {
			out := c17Apply(ops[oi], sa)
			c.Evals++
			c.Transitions++
			if out != fresh[oi] {
				hist := make([]int, 12)
				for i := range hist {
					hist[i] = b
				}
				c.Violate("history-dependent/after-burst/"+c17Class(ops[oi].name), fmt.Sprintf("suite %d: after twelve consecutive %s, %s gives %s, on a fresh SA %s", si, ops[b].name, ops[oi].name, trs(out), trs(fresh[oi])),
					c17Case{Suite: si, PRF: prfIdx, Hist: hist, Op: oi, Tier: c.Tier})
				return
			}
		}
	}
}

// c17Keyed keys sa (nil: a new object) under the suite through GenerateKeyForIKESA, the way a caller does, and
// returns the key set the RFC prescribes for those inputs.
func c17Keyed(sa *security.IKESAKey, si, prfIdx, salt int) (*security.IKESAKey, univ.KeySet, error) {
	s, p := ref.Suites()[si], ref.PRFs[prfIdx]
	if sa == nil {
		sa = &security.IKESAKey{}
	}
	sa.DhInfo = dh.StrToType("DH_2048_BIT_MODP")
	sa.EncrInfo = encr.StrToType(univ.EncrName(s.EncrKeyLen))
	sa.IntegInfo = integ.StrToType(univ.IntegName(s.Integ))
	sa.PrfInfo = prf.StrToType(univ.PRFName(p))
	nonce, secret := univ.Pat(64, 300+salt), univ.Pat(256, 301+salt)
	spiI, spiR := uint64(0x1122334455667788)+uint64(salt), uint64(0x8877665544332211)^uint64(salt)
	ks := univ.KeySet{Suite: s, SuiteIdx: si, PRFIdx: prfIdx, Pattern: -1, K: ref.DeriveIKE(p, s.Integ, s.EncrKeyLen, nonce, secret, spiI, spiR)}
	var err error
	if pi := engine.Catch(func() { err = sa.GenerateKeyForIKESA(nonce, secret, spiI, spiR) }); pi != nil {
		return nil, ks, fmt.Errorf("panic %s", pi.Sig())
	}
	return sa, ks, err
}

// c17Rekeyed: one key object is keyed under suite (fsi, fp), used, then keyed under (si, prfIdx) — a retry of
// IKE_SA_INIT after the negotiation changed, an object taken from a pool. Every op of the alphabet, applied one
// after the other to that object, must give what it gives on an object that was keyed once with the same inputs.
func c17Rekeyed(c *engine.Ctx, fsi, fp, si, prfIdx int) {
	cs := c17Case{Suite: si, PRF: prfIdx, From: []int{fsi, fp}, Tier: c.Tier}
	once, ks, err := c17Keyed(nil, si, prfIdx, 7)
	if err != nil {
		c.Violate("rekeyed/derive-error", errStr(err), cs)
		return
	}
	_ = once
	other := ks
	other.K = ref.DeriveIKE(ref.PRFs[prfIdx], ks.Suite.Integ, ks.Suite.EncrKeyLen, univ.Pat(32, 77), univ.Pat(128, 78), 5, 6)
	ops := c17OpsKS(ks, other, false)
	obj, fks, err := c17Keyed(nil, fsi, fp, 11)
	if err != nil {
		c.Violate("rekeyed/derive-error", errStr(err), cs)
		return
	}
	for _, op := range c17OpsKS(fks, fks, false)[:9] { // the object is used under its first keys
		c17Apply(op, obj)
	}
	if _, _, err = c17Keyed(obj, si, prfIdx, 7); err != nil {
		c.Violate("rekeyed/derive-error", "second GenerateKeyForIKESA on a used object: "+errStr(err), cs)
		return
	}
	for oi, op := range ops {
		f, _, _ := c17Keyed(nil, si, prfIdx, 7)
		want := c17Apply(op, f)
		if oi < 4 && (len(want) < 16 || want[:16] != "accepted by peer") {
			c.Violate("fresh/protect-fails", op.name+" on an object keyed once by GenerateKeyForIKESA: "+trs(want), cs)
			return
		}
		got := c17Apply(op, obj)
		c.Evals++
		c.Transitions++
		if got != want {
			c.Violate("history-dependent/rekeyed-object/"+c17Class(op.name), fmt.Sprintf("object keyed under %v / %s, used, then keyed under %v / %s: %s gives %s, on an object keyed once %s",
				ref.Suites()[fsi], ref.PRFs[fp].Digest, ks.Suite, ref.PRFs[prfIdx].Digest, op.name, trs(got), trs(want)), cs)
			return
		}
	}
	c.Count("rekeyed_objects_checked", 1)
}

func histNames(ops []c17Op, h []int) []string {
	var s []string
	for _, i := range h {
		s = append(s, ops[i].name)
	}
	return s
}

// c17ValidateFresh: the fresh-SA outcome of each op is itself what the property demands.
func c17ValidateFresh(c *engine.Ctx, ks univ.KeySet, si, prfIdx, oi int, name, out string) {
	cs := c17Case{Suite: si, PRF: prfIdx, Op: oi, Tier: c.Tier}
	switch {
	case len(name) > 15 && name[:15] == "failing-protect":
		if out != "error" {
			c.Violate("fresh/source-failure-swallowed", name+": "+trs(out), cs)
		}
	case len(name) > 7 && name[:7] == "protect":
		if len(out) < 16 || out[:16] != "accepted by peer" {
			c.Violate("fresh/protect-fails", name+": "+trs(out), cs)
		}
	case len(name) > 17 && name[:18] == "unprotect(genuine ":
		if out == "error" || (len(out) > 5 && out[:5] == "panic") {
			c.Violate("fresh/genuine-refused", name+": "+trs(out), cs)
		}
	case len(name) > 9 && name[:9] == "unprotect":
		if out != "error" {
			c.Violate("fresh/forged-accepted", name+": "+trs(out), cs)
		}
	case len(name) > 5 && name[:5] == "child":
		if out == "error" || (len(out) > 5 && out[:5] == "panic") {
			c.Violate("fresh/child-fails", name+": "+trs(out), cs)
		}
	}
}
