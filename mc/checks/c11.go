package checks

import (
	"bytes"
	"encoding/json"
	"fmt"

	"github.com/free5gc/ike/message"
	"github.com/free5gc/ike/security"
	"github.com/free5gc/ike/security/dh"
	"github.com/free5gc/ike/security/encr"
	"github.com/free5gc/ike/security/esn"
	"github.com/free5gc/ike/security/integ"
	"github.com/free5gc/ike/security/prf"

	"verif/mc/engine"
	"verif/mc/ref"
	"verif/mc/univ"
)

// C11 — algorithm <-> transform mapping is faithful and closed over the advertised set.

type c11Case struct {
	K    string        `json:"k"` // decode | advertised | proposal-ike | proposal-child | bad-proposal
	Fn   string        `json:"fn,omitempty"`
	T    ref.Transform `json:"transform"`
	Wire bool          `json:"after_wire"`
	Cfg  []int         `json:"cfg,omitempty"`
	Slot int           `json:"slot,omitempty"`
	Raw  string        `json:"raw_attributes_hex,omitempty"` // raw: the attribute octets of one AES-CBC transform as a foreign sender wrote them
}

// algInfo is what a decode function returned, reduced to observable facts.
type algInfo struct {
	ok      bool
	id      uint16
	keyLen  int
	outLen  int // -1 if not applicable
	needESN bool
}

type decodeFn struct {
	name  string
	ttype uint8
	f     func(t *message.Transform) algInfo
}

func decodeFns() []decodeFn {
	return []decodeFn{
		{"encr.DecodeTransform", 1, func(t *message.Transform) algInfo {
			x := encr.DecodeTransform(t)
			if x == nil {
				return algInfo{}
			}
			return algInfo{true, x.TransformID(), x.GetKeyLength(), -1, false}
		}},
		{"encr.DecodeTransformChildSA", 1, func(t *message.Transform) algInfo {
			x := encr.DecodeTransformChildSA(t)
			if x == nil {
				return algInfo{}
			}
			return algInfo{true, x.TransformID(), x.GetKeyLength(), -1, false}
		}},
		{"prf.DecodeTransform", 2, func(t *message.Transform) algInfo {
			x := prf.DecodeTransform(t)
			if x == nil {
				return algInfo{}
			}
			return algInfo{true, x.TransformID(), x.GetKeyLength(), x.GetOutputLength(), false}
		}},
		{"integ.DecodeTransform", 3, func(t *message.Transform) algInfo {
			x := integ.DecodeTransform(t)
			if x == nil {
				return algInfo{}
			}
			return algInfo{true, x.TransformID(), x.GetKeyLength(), x.GetOutputLength(), false}
		}},
		{"integ.DecodeTransformChildSA", 3, func(t *message.Transform) algInfo {
			x := integ.DecodeTransformChildSA(t)
			if x == nil {
				return algInfo{}
			}
			return algInfo{true, x.TransformID(), x.GetKeyLength(), -1, false}
		}},
		{"dh.DecodeTransform", 4, func(t *message.Transform) algInfo {
			x := dh.DecodeTransform(t)
			if x == nil {
				return algInfo{}
			}
			return algInfo{true, x.TransformID(), -1, -1, false}
		}},
		{"esn.DecodeTransform", 5, func(t *message.Transform) algInfo {
			x, err := esn.DecodeTransform(t)
			if err != nil {
				return algInfo{}
			}
			return algInfo{true, x.TransformID(), -1, -1, x.GetNeedESN()}
		}},
	}
}

// expected returns what RFC 3602/2403/2404/4868/7296 and the IANA registry allow for a
// transform: (supported, must be supported, key length, output length).
func c11Expected(t ref.Transform) (allowed bool, must bool, keyLen, outLen int) {
	noAttr := !t.HasAttr
	switch t.Type {
	case 1:
		if t.ID == ref.EncrAESCBC && t.HasAttr && t.TV && t.AType == 14 && (t.AValue == 128 || t.AValue == 192 || t.AValue == 256) {
			return true, true, int(t.AValue) / 8, -1
		}
		return false, false, 0, 0
	case 2:
		if p := ref.PRFByID(t.ID); p != nil {
			return true, noAttr, p.KeyLen, p.KeyLen
		}
	case 3:
		if a := ref.IntegByID(t.ID); a != nil {
			return true, noAttr, a.KeyLen, a.OutLen
		}
	case 4:
		if t.ID == 2 || t.ID == 14 {
			return true, noAttr, -1, -1
		}
	case 5:
		if t.ID == 0 || t.ID == 1 {
			return true, noAttr, -1, -1
		}
	}
	return false, false, 0, 0
}

func libTransform(t ref.Transform) *message.Transform {
	var tc message.TransformContainer
	var at, av *uint16
	var vv []byte
	if t.HasAttr {
		x := t.AType
		at = &x
		if t.TV {
			y := t.AValue
			av = &y
		} else {
			vv = t.AVar
		}
	}
	tc.BuildTransform(t.Type, t.ID, at, av, vv)
	if len(tc) != 1 {
		return nil
	}
	return tc[0]
}

// viaWire sends the transform through SA.Marshal / Unmarshal inside a one-transform proposal.
func viaWire(lt *message.Transform) (*message.Transform, error) {
	sa := &message.SecurityAssociation{}
	p := sa.Proposals.BuildProposal(1, 1, nil)
	switch lt.TransformType {
	case 1:
		p.EncryptionAlgorithm = append(p.EncryptionAlgorithm, lt)
	case 2:
		p.PseudorandomFunction = append(p.PseudorandomFunction, lt)
	case 3:
		p.IntegrityAlgorithm = append(p.IntegrityAlgorithm, lt)
	case 4:
		p.DiffieHellmanGroup = append(p.DiffieHellmanGroup, lt)
	case 5:
		p.ExtendedSequenceNumbers = append(p.ExtendedSequenceNumbers, lt)
	}
	b, err := sa.Marshal()
	if err != nil {
		return nil, err
	}
	r := &message.SecurityAssociation{}
	if err := r.Unmarshal(b); err != nil {
		return nil, err
	}
	pr := r.Proposals[0]
	for _, l := range []message.TransformContainer{pr.EncryptionAlgorithm, pr.PseudorandomFunction, pr.IntegrityAlgorithm, pr.DiffieHellmanGroup, pr.ExtendedSequenceNumbers} {
		if len(l) == 1 {
			return l[0], nil
		}
	}
	return nil, fmt.Errorf("transform lost on the wire")
}

func init() {
	engine.Register(&engine.Check{
		ID:    "C11",
		Level: "exploration",
		Rule: "(a) every advertised algorithm name (3 encr, 3 integ, 3 prf, 2 dh, 2 esn; IKE and Child variants) → ToTransform → decode, directly and after SA.Marshal/Unmarshal: same identifier and the key/output/PRF lengths of the RFC table; (b) all single-choice IKE proposals (54) through ToProposal → wire → NewIKESAKey and all Child proposals (3×4×3×2) through ToProposal → wire → NewChildSAKeyByProposal; " +
			"(c) negative space: transform identifiers 0..1023 ∪ boundary values (thorough: all 65536) × attribute classes {absent; key length TV with the boundary value set; for AES-CBC all 65536 values; TV of other types incl. 0, 13, 15, 14+128k (k=1..255), 0x7FFF; TLV type 14 with 128/192/256} × the 7 decode functions, directly and after the wire; (d) proposals with one unsupported transform in each slot must make SA construction fail. " +
			"The advertised set is walked twice, every transform / proposal the library hands out being overwritten by its holder after use; all advertised combinations are also offered as the proposals of one SA payload (every count 1..54 IKE, 1..54 Child SA) that must survive the wire. Oracle: reference table id → (algorithm, key, output length); a result is that algorithm or 'unsupported', never another identifier or key size; advertised combinations must be supported. distinct_nontrivial = distinct (function, transform, wire) cases that mapped to a supported algorithm",
		Run: runC11,
		Replay: func(c *engine.Ctx, raw json.RawMessage) {
			var cs c11Case
			unmarshalCase(raw, &cs)
			switch cs.K {
			case "decode":
				for _, f := range decodeFns() {
					if f.name == cs.Fn {
						evalC11Decode(c, f, cs.T, cs.Wire)
					}
				}
			case "raw":
				c11Raw(c, engine.UnHex(cs.Raw))
			case "advertised":
				c11Advertised(c)
			case "proposal-ike":
				c11IKEProposal(c, cs.Cfg)
			case "proposal-child":
				c11ChildProposal(c, cs.Cfg)
			case "bad-proposal":
				c11BadProposal(c, cs.Slot, cs.T)
			}
		},
	})
}

func evalC11Decode(c *engine.Ctx, f decodeFn, t ref.Transform, wire bool) {
	c.Evals++
	cs := func() c11Case { return c11Case{K: "decode", Fn: f.name, T: t, Wire: wire} }
	lt := libTransform(t)
	if lt == nil {
		c.Count("not_buildable", 1)
		return
	}
	if wire {
		var err error
		var pi *engine.PanicInfo
		pi = engine.Catch(func() { lt, err = viaWire(lt) })
		if pi != nil {
			c.Violate(pi.Sig(), "SA wire round trip panics: "+pi.Value, cs())
			return
		}
		if err != nil {
			c.Count("wire_refused", 1)
			return
		}
	}
	var got algInfo
	if pi := engine.Catch(func() { got = f.f(lt) }); pi != nil {
		c.Violate(pi.Sig(), f.name+" panics: "+pi.Value, cs())
		return
	}
	allowed, must, kl, ol := c11Expected(t)
	w := map[bool]string{true: "after-wire", false: "direct"}[wire]
	cls := c11AttrClass(t)
	if got.ok {
		if !allowed {
			c.Violate(fmt.Sprintf("unsupported-accepted/%s/%s/%s", f.name, cls, w), fmt.Sprintf("%s maps %s to algorithm id %d (key %d) although it is not a supported transform", f.name, t.Canon(), got.id, got.keyLen), cs())
			return
		}
		if got.id != t.ID {
			c.Violate(fmt.Sprintf("other-identifier/%s/%s", f.name, w), fmt.Sprintf("%s maps %s to identifier %d", f.name, t.Canon(), got.id), cs())
			return
		}
		if (got.keyLen >= 0 && kl >= 0 && got.keyLen != kl) || (got.outLen >= 0 && ol >= 0 && got.outLen != ol) {
			c.Violate(fmt.Sprintf("wrong-length/%s/%s", f.name, w), fmt.Sprintf("%s maps %s to key length %d / output %d, the RFC table gives %d / %d", f.name, t.Canon(), got.keyLen, got.outLen, kl, ol), cs())
			return
		}
		if t.Type == 5 && got.needESN != (t.ID == 1) {
			c.Violate("esn-flag/"+w, fmt.Sprintf("ESN transform %d gives needESN=%v", t.ID, got.needESN), cs())
			return
		}
		c.DistinctS(f.name + t.Canon() + w)
		c.Sample("supported", map[string]interface{}{"fn": f.name, "transform": t.Canon(), "wire": wire, "key_len": got.keyLen, "out_len": got.outLen})
	} else {
		if must {
			c.Violate(fmt.Sprintf("advertised-rejected/%s/%s", f.name, w), fmt.Sprintf("%s refuses %s", f.name, t.Canon()), cs())
			return
		}
		c.Count("unsupported_as_expected", 1)
	}
}

func c11AttrClass(t ref.Transform) string {
	switch {
	case !t.HasAttr:
		return "no-attr"
	case t.TV && t.AType == 14:
		return "keylen-tv"
	case t.TV:
		if t.AType%128 == 14 {
			return "tv-type-14+128k"
		}
		return "tv-other-type"
	default:
		return "tlv"
	}
}

func c11AttrClasses(t uint8, id uint16, thorough bool) []ref.Transform {
	base := ref.Transform{Type: t, ID: id}
	out := []ref.Transform{base}
	tvv := func(at, av uint16) ref.Transform {
		x := base
		x.HasAttr, x.TV, x.AType, x.AValue = true, true, at, av
		return x
	}
	for _, v := range []uint16{0, 1, 64, 127, 128, 129, 191, 192, 193, 255, 256, 257, 512, 0xffff} {
		out = append(out, tvv(14, v))
	}
	for _, at := range []uint16{0, 13, 15, 0x7fff} {
		out = append(out, tvv(at, 128))
	}

	ks := []int{1, 2, 255}
	if thorough || (t == 1 && id == ref.EncrAESCBC) {
		ks = nil
		for k := 1; k <= 255; k++ {
			ks = append(ks, k)
		}
	}
	for _, k := range ks {
		out = append(out, tvv(uint16(14+128*k), 128), tvv(uint16(14+128*k), 256))
	}
	for _, v := range [][]byte{{0, 128}, {0, 192}, {1, 0}, {128}} {
		x := base
		x.HasAttr, x.AType, x.AVar = true, 14, v
		out = append(out, x)
	}
	return out
}

func runC11(c *engine.Ctx) {
	fns := decodeFns()
	if c.Mine() {
		c11Advertised(c)
	}
	// (b) proposals
	for p := 0; p < 3; p++ {
		for i := 0; i < 3; i++ {
			for e := 0; e < 3; e++ {
				for d := 0; d < 2; d++ {
					if c.Mine() {
						c11IKEProposal(c, []int{p, i, e, d})
					}
				}
			}
		}
	}
	for e := 0; e < 3; e++ {
		for i := -1; i < 3; i++ {
			for d := -1; d < 2; d++ {
				for s := 0; s < 2; s++ {
					if c.Mine() {
						c11ChildProposal(c, []int{e, i, d, s})
					}
				}
			}
		}
	}
	// (c) negative space
	ids := map[int]bool{}
	var idl []int
	add := func(v int) {
		if v >= 0 && v <= 65535 && !ids[v] {
			ids[v] = true
			idl = append(idl, v)
		}
	}
	lim := 1024
	if c.Thorough() {
		lim = 65536
	}
	for v := 0; v < lim; v++ {
		add(v)
	}
	for _, b := range []int{1024, 4095, 4096, 32767, 32768, 65280, 65534, 65535} {
		add(b)
		for _, k := range []int{1, 2, 5, 12, 14} {
			add(b + k)
			add(256*k + 12) // high octet set, low octet = a supported id
			add(256 * k)
		}
	}
	for _, id := range idl {
		if !c.Mine() {
			continue
		}
		for _, f := range fns {
			for _, t := range c11AttrClasses(f.ttype, uint16(id), c.Thorough()) {
				evalC11Decode(c, f, t, false)
				evalC11Decode(c, f, t, true)
			}
		}
	}
	// AES-CBC: all 65536 key-length values
	for v := 0; v < 65536; v++ {
		if !c.Mine() {
			continue
		}
		t := ref.Transform{Type: 1, ID: ref.EncrAESCBC, HasAttr: true, TV: true, AType: 14, AValue: uint16(v)}
		for _, f := range fns[:2] {
			evalC11Decode(c, f, t, false)
			evalC11Decode(c, f, t, v%16 == 0 || (v >= 120 && v <= 264))
		}
	}
	// AES-CBC with a TLV-encoded attribute of type 14 of every length 1..300 (a decoder that confuses the TLV
	// length word with a TV value accepts lengths 128 / 192 / 256)
	for n := 1; n <= 300; n++ {
		if !c.Mine() {
			continue
		}
		for _, fill := range []byte{0x00, 0x80} {
			t := ref.Transform{Type: 1, ID: ref.EncrAESCBC, HasAttr: true, AType: 14, AVar: univ.Fill(n, fill)}
			for _, f := range fns[:2] {
				evalC11Decode(c, f, t, false)
				evalC11Decode(c, f, t, true)
			}
		}
	}
	// AES-CBC transforms as a foreign sender may write them: every sequence of up to three attributes over an
	// alphabet of well-formed attributes (key length as TV and as TLV of several lengths incl. 0, foreign TV / TLV
	// attributes with key-length-like values)
	{
		tvA := func(t, v uint16) []byte { return []byte{0x80 | byte(t>>8), byte(t), byte(v >> 8), byte(v)} }
		tlvA := func(t uint16, v []byte) []byte {
			return append([]byte{byte(t >> 8), byte(t), byte(len(v) >> 8), byte(len(v))}, v...)
		}
		alpha := [][]byte{tvA(14, 128), tvA(14, 192), tvA(14, 256), tvA(14, 64), tvA(14, 0), tvA(9, 256), tvA(15, 128), tvA(0, 192),
			tlvA(14, nil), tlvA(14, []byte{0, 128}), tlvA(14, []byte{0xde, 0xad, 0xbe, 0xef}), tlvA(14, []byte{1, 0}), tlvA(9, []byte{0, 128}), tlvA(300, nil)}
		var rec func(cur []byte, depth int)
		rec = func(cur []byte, depth int) {
			if depth > 0 {
				c11Raw(c, cur)
			}
			if depth == 3 {
				return
			}
			for _, a := range alpha {
				rec(append(append([]byte(nil), cur...), a...), depth+1)
			}
		}
		for _, a := range alpha {
			if c.Mine() {
				rec(append([]byte(nil), a...), 1)
			}
		}
	}
	// (d) unsupported transform in each slot
	for slot := 1; slot <= 5; slot++ {
		for _, t := range []ref.Transform{{ID: 3}, {ID: 12}, {ID: 12, HasAttr: true, TV: true, AType: 14, AValue: 64}, {ID: 12, HasAttr: true, TV: true, AType: 142, AValue: 128},
			{ID: 6}, {ID: 13}, {ID: 65535}, {ID: 12, HasAttr: true, AType: 14, AVar: []byte{0, 128}}} {
			if c.Mine() {
				t.Type = uint8(slot)
				c11BadProposal(c, slot, t)
			}
		}
	}
}

// c11Raw: one AES-CBC transform with the given attribute octets, inside a one-proposal SA payload. If the payload
// decodes and a decode function names an AES-CBC algorithm, the wire must carry a Key Length attribute in TV form
// (type 14) with exactly that key size — whatever else it carries — and asking again gives the same answer.
func c11Raw(c *engine.Ctx, attrs []byte) {
	c.Evals++
	cs := c11Case{K: "raw", Raw: engine.Hex(attrs)}
	tl := 8 + len(attrs)
	pl := 8 + tl
	body := []byte{0, 0, byte(pl >> 8), byte(pl), 1, 1, 0, 1, 0, 0, byte(tl >> 8), byte(tl), 1, 0, 0, 12}
	body = append(body, attrs...)
	// which key sizes does the wire name with a well-formed TV attribute of type 14?
	named := map[int]bool{}
	for i := 0; i+4 <= len(attrs); {
		t := int(attrs[i]&0x7f)<<8 | int(attrs[i+1])
		if attrs[i]&0x80 != 0 {
			if t == 14 {
				named[int(attrs[i+2])<<8|int(attrs[i+3])] = true
			}
			i += 4
		} else {
			i += 4 + (int(attrs[i+2])<<8 | int(attrs[i+3]))
		}
	}
	sa := &message.SecurityAssociation{}
	var err error
	if pi := engine.Catch(func() { err = sa.Unmarshal(body) }); pi != nil {
		c.Violate(pi.Sig(), "SA Unmarshal panics on a transform with several attributes: "+pi.Value, cs)
		return
	}
	if err != nil || len(sa.Proposals) != 1 || len(sa.Proposals[0].EncryptionAlgorithm) != 1 {
		c.Count("raw_transforms_refused_or_dropped", 1)
		return
	}
	lt := sa.Proposals[0].EncryptionAlgorithm[0]
	for _, f := range decodeFns()[:2] {
		var first algInfo
		for k := 0; k < 8; k++ {
			var got algInfo
			if pi := engine.Catch(func() { got = f.f(lt) }); pi != nil {
				c.Violate(pi.Sig(), f.name+" panics: "+pi.Value, cs)
				return
			}
			if k == 0 {
				first = got
			} else if got != first {
				c.Violate("raw/not-deterministic/"+f.name, fmt.Sprintf("%s gives %+v and then %+v for the same transform (attributes %x)", f.name, first, got, attrs), cs)
				return
			}
		}
		if first.ok && (first.id != ref.EncrAESCBC || !named[first.keyLen*8]) {
			c.Violate("raw/unsupported-accepted/"+f.name, fmt.Sprintf("%s maps an AES-CBC transform with attributes %x to key length %d although the wire carries no TV Key Length attribute with that value", f.name, attrs, first.keyLen), cs)
			return
		}
	}
	c.DistinctS("raw" + cs.Raw)
}

// c11Advertised: the advertised set, twice in a row: every transform the library hands out belongs to the caller, who
// edits it after use (offers another key size, another identifier); what is handed out next is faithful again.
func c11Advertised(c *engine.Ctx) {
	for pass := 0; pass < 2; pass++ {
		c11AdvertisedPass(c, pass)
	}
	c11AllInOne(c)
}

// c11AllInOne: every advertised combination as one proposal of a single SA payload (an initiator offering all it
// supports), for every number of proposals 1..54 (IKE) / 1..54 (Child SA with integrity): each proposal survives the wire and maps
// back to its algorithms.
func c11AllInOne(c *engine.Ctx) {
	cs := c11Case{K: "advertised"}
	var ike []*message.Proposal
	var ikeCfg [][]int
	for p := 0; p < 3; p++ {
		for i := 0; i < 3; i++ {
			for e := 0; e < 3; e++ {
				for d := 0; d < 2; d++ {
					prop, err := infoSA(c07Case{PRF: p, Integ: i, Encr: e, DH: d}).ToProposal()
					if err != nil {
						c.Violate("proposal-ike/toproposal", errStr(err), cs)
						return
					}
					ike = append(ike, prop)
					ikeCfg = append(ikeCfg, []int{p, i, e, d})
				}
			}
		}
	}
	for k := 1; k <= len(ike); k++ {
		c.Evals++
		sa := &message.SecurityAssociation{}
		for i := 0; i < k; i++ {
			ike[i].ProposalNumber = uint8(i + 1)
			ike[i].ProtocolID = 1
			sa.Proposals = append(sa.Proposals, ike[i])
		}
		var b []byte
		var err error
		r := &message.SecurityAssociation{}
		if pi := engine.Catch(func() {
			if b, err = sa.Marshal(); err == nil {
				err = r.Unmarshal(b)
			}
		}); pi != nil {
			c.Violate(pi.Sig(), "SA payload with all advertised proposals panics: "+pi.Value, cs)
			return
		}
		if err != nil || len(r.Proposals) != k {
			c.Violate("advertised/all-in-one/wire-refused", fmt.Sprintf("an SA payload offering the first %d of the 54 advertised IKE combinations (%d octets) does not survive the wire: %v (%d proposals decoded)", k, len(b), err, len(r.Proposals)), cs)
			return
		}
		// the last proposal (the one that was added at this size) maps back to its algorithms
		cfg := ikeCfg[k-1]
		rp := r.Proposals[k-1]
		seam := engine.NewSeam(nil, nil)
		restore := engine.Install(seam)
		var key *security.IKESAKey
		pi := engine.Catch(func() { key, _, err = security.NewIKESAKey(rp, []byte{2}, univ.Pat(32, 1), 1, 2) })
		restore()
		if pi != nil || err != nil {
			c.Violate("advertised/all-in-one/rejected", fmt.Sprintf("proposal %d of %d (cfg %v) after the wire: %v %v", k, k, cfg, pi, err), cs)
			return
		}
		p, ig, el := ref.PRFs[cfg[0]], ref.Integs[cfg[1]], ref.EncrKeyLens[cfg[2]]
		if key.PrfInfo.TransformID() != p.ID || key.IntegInfo.TransformID() != ig.ID || key.IntegInfo.GetKeyLength() != ig.KeyLen || key.EncrInfo.GetKeyLength() != el || key.DhInfo.TransformID() != dhIDs[cfg[3]] {
			c.Violate("advertised/all-in-one/not-faithful", fmt.Sprintf("proposal %d of %d (cfg %v) maps to prf %d integ %d encr key %d dh %d", k, k, cfg, key.PrfInfo.TransformID(), key.IntegInfo.TransformID(), key.EncrInfo.GetKeyLength(), key.DhInfo.TransformID()), cs)
			return
		}
	}
	c.Count("all_in_one_ike_payloads", int64(len(ike)))
	var child []*message.Proposal
	for e := 0; e < 3; e++ {
		for i := 0; i < 3; i++ { // (NewChildSAKeyByProposal insists on an integrity transform; see c11ChildProposal)
			for d := 0; d < 3; d++ {
				for es := 0; es < 2; es++ {
					ch := &security.ChildSAKey{EncrKInfo: encr.StrToKType(univ.EncrName(ref.EncrKeyLens[e]))}
					ch.IntegKInfo = integ.StrToKType(univ.IntegName(ref.Integs[i]))
					if d > 0 {
						ch.DhInfo = dh.StrToType(dhNames[d-1])
					}
					ch.EsnInfo, _ = esn.StrToType([]string{"ESN_DISABLE", "ESN_ENABLE"}[es])
					prop, err := ch.ToProposal()
					if err != nil {
						continue
					}
					child = append(child, prop)
				}
			}
		}
	}
	for k := 1; k <= len(child); k++ {
		c.Evals++
		sa := &message.SecurityAssociation{}
		for i := 0; i < k; i++ {
			child[i].ProposalNumber = uint8(i + 1)
			child[i].ProtocolID = 3
			child[i].SPI = univ.Pat(4, i)
			sa.Proposals = append(sa.Proposals, child[i])
		}
		var b []byte
		var err error
		r := &message.SecurityAssociation{}
		if pi := engine.Catch(func() {
			if b, err = sa.Marshal(); err == nil {
				err = r.Unmarshal(b)
			}
		}); pi != nil {
			c.Violate(pi.Sig(), "SA payload with all advertised Child SA proposals panics: "+pi.Value, cs)
			return
		}
		if err != nil || len(r.Proposals) != k {
			c.Violate("advertised/all-in-one/wire-refused", fmt.Sprintf("an SA payload offering %d advertised Child SA combinations (%d octets) does not survive the wire: %v (%d proposals decoded)", k, len(b), err, len(r.Proposals)), cs)
			return
		}
		var key *security.ChildSAKey
		if pi := engine.Catch(func() { key, err = security.NewChildSAKeyByProposal(r.Proposals[k-1]) }); pi != nil || err != nil || key == nil {
			c.Violate("advertised/all-in-one/rejected", fmt.Sprintf("Child SA proposal %d of %d after the wire: %v %v", k, k, pi, err), cs)
			return
		}
		back, err := key.ToProposal()
		if err != nil || engine.Dump(back.EncryptionAlgorithm) != engine.Dump(child[k-1].EncryptionAlgorithm) || engine.Dump(back.IntegrityAlgorithm) != engine.Dump(child[k-1].IntegrityAlgorithm) ||
			engine.Dump(back.DiffieHellmanGroup) != engine.Dump(child[k-1].DiffieHellmanGroup) || engine.Dump(back.ExtendedSequenceNumbers) != engine.Dump(child[k-1].ExtendedSequenceNumbers) {
			c.Violate("advertised/all-in-one/not-faithful", fmt.Sprintf("Child SA proposal %d of %d does not map back to the algorithms it was built from (%v)", k, k, err), cs)
			return
		}
	}
	c.Count("all_in_one_child_payloads", int64(len(child)))
	// one payload offering Child SA proposals (each with its SPI) and IKE proposals (without) side by side, in both orders
	for order := 0; order < 2; order++ {
		c.Evals++
		sa := &message.SecurityAssociation{}
		list := append(append([]*message.Proposal(nil), child[:3]...), ike[:3]...)
		if order == 1 {
			list = append(append([]*message.Proposal(nil), ike[:2]...), append(child[:2], ike[2])...)
		}
		for i, p := range list {
			p.ProposalNumber = uint8(i + 1)
			sa.Proposals = append(sa.Proposals, p)
		}
		r := &message.SecurityAssociation{}
		var err error
		var b []byte
		if pi := engine.Catch(func() {
			if b, err = sa.Marshal(); err == nil {
				err = r.Unmarshal(b)
			}
		}); pi != nil {
			c.Violate(pi.Sig(), "SA payload mixing proposals with and without SPI panics: "+pi.Value, cs)
			return
		}
		if err != nil || len(r.Proposals) != len(list) {
			c.Violate("advertised/mixed-spi-sizes/wire-refused", fmt.Sprintf("an SA payload offering advertised Child SA proposals (4-octet SPI) and IKE proposals (no SPI) side by side (order %d, %d octets) does not survive the wire: %v", order, len(b), err), cs)
			return
		}
		for i := range list {
			if engine.Dump(r.Proposals[i].EncryptionAlgorithm) != engine.Dump(list[i].EncryptionAlgorithm) || !bytes.Equal(r.Proposals[i].SPI, list[i].SPI) {
				c.Violate("advertised/mixed-spi-sizes/not-faithful", fmt.Sprintf("proposal %d of a payload mixing SPI sizes (order %d) comes back different", i+1, order), cs)
				return
			}
		}
	}
}

func c11AdvertisedPass(c *engine.Ctx, pass int) {
	cs := c11Case{K: "advertised"}
	chk := func(what string, lt *message.Transform, f decodeFn, wantID uint16, wantKey, wantOut int) {
		c.Evals++
		for _, wire := range []bool{false, true} {
			x := lt
			if wire {
				var err error
				if x, err = viaWire(lt); err != nil {
					c.Violate("advertised/wire-refused/"+what, errStr(err), cs)
					return
				}
			}
			got := f.f(x)
			if !got.ok || got.id != wantID || (wantKey >= 0 && got.keyLen != wantKey) || (wantOut >= 0 && got.outLen >= 0 && got.outLen != wantOut) {
				c.Violate("advertised/not-faithful/"+what, fmt.Sprintf("%s (wire=%v): decoded to %+v, want id %d key %d out %d", what, wire, got, wantID, wantKey, wantOut), cs)
				return
			}
		}
		c.DistinctS("adv" + what)
		engine.Scribble(lt) // the caller's copy is edited after use
	}
	fns := decodeFns()
	for _, kl := range ref.EncrKeyLens {
		n := univ.EncrName(kl)
		if et := encr.StrToType(n); et == nil {
			c.Violate("advertised/missing/"+n, "StrToType returns nil", cs)
		} else {
			if et.TransformID() != ref.EncrAESCBC || et.GetKeyLength() != kl {
				c.Violate("advertised/table/"+n, fmt.Sprintf("id %d key %d", et.TransformID(), et.GetKeyLength()), cs)
			}
			lt, err := encr.ToTransform(et)
			if err != nil {
				c.Violate("advertised/totransform/"+n, errStr(err), cs)
			} else {
				chk(n, lt, fns[0], ref.EncrAESCBC, kl, -1)
			}
		}
		if et := encr.StrToKType(n); et == nil {
			c.Violate("advertised/missing-child/"+n, "StrToKType returns nil", cs)
		} else {
			lt, err := encr.ToTransformChildSA(et)
			if err != nil || et.GetKeyLength() != kl {
				c.Violate("advertised/totransform-child/"+n, fmt.Sprint(err, et.GetKeyLength()), cs)
			} else {
				chk(n+"(child)", lt, fns[1], ref.EncrAESCBC, kl, -1)
			}
		}
	}
	for _, a := range ref.Integs {
		n := univ.IntegName(a)
		if it := integ.StrToType(n); it == nil {
			c.Violate("advertised/missing/"+n, "nil", cs)
		} else {
			if it.TransformID() != a.ID || it.GetKeyLength() != a.KeyLen || it.GetOutputLength() != a.OutLen {
				c.Violate("advertised/table/"+n, fmt.Sprintf("id %d key %d out %d, RFC: %d %d %d", it.TransformID(), it.GetKeyLength(), it.GetOutputLength(), a.ID, a.KeyLen, a.OutLen), cs)
			}
			chk(n, integ.ToTransform(it), fns[3], a.ID, a.KeyLen, a.OutLen)
		}
		if it := integ.StrToKType(n); it == nil {
			c.Violate("advertised/missing-child/"+n, "nil", cs)
		} else {
			if it.TransformID() != a.ID || it.GetKeyLength() != a.KeyLen {
				c.Violate("advertised/table-child/"+n, fmt.Sprintf("id %d key %d", it.TransformID(), it.GetKeyLength()), cs)
			}
			chk(n+"(child)", integ.ToTransformChildSA(it), fns[4], a.ID, a.KeyLen, -1)
		}
	}
	for _, p := range ref.PRFs {
		n := univ.PRFName(p)
		if pt := prf.StrToType(n); pt == nil {
			c.Violate("advertised/missing/"+n, "nil", cs)
		} else {
			if pt.TransformID() != p.ID || pt.GetKeyLength() != p.KeyLen || pt.GetOutputLength() != p.KeyLen {
				c.Violate("advertised/table/"+n, fmt.Sprintf("id %d key %d out %d", pt.TransformID(), pt.GetKeyLength(), pt.GetOutputLength()), cs)
			}
			chk(n, prf.ToTransform(pt), fns[2], p.ID, p.KeyLen, p.KeyLen)
		}
	}
	for i, n := range dhNames {
		if dt := dh.StrToType(n); dt == nil {
			c.Violate("advertised/missing/"+n, "nil", cs)
		} else {
			chk(n, dh.ToTransform(dt), fns[5], dhIDs[i], -1, -1)
		}
	}
	for i, n := range []string{"ESN_DISABLE", "ESN_ENABLE"} {
		et, err := esn.StrToType(n)
		if err != nil {
			c.Violate("advertised/missing/"+n, errStr(err), cs)
			continue
		}
		if et.GetNeedESN() != (i == 1) {
			c.Violate("advertised/table/"+n, "needESN wrong", cs)
		}
		chk(n, esn.ToTransform(et), fns[6], uint16(i), -1, -1)
	}
}

func proposalViaWire(p *message.Proposal) (*message.Proposal, error) {
	sa := &message.SecurityAssociation{}
	p.ProposalNumber = 1
	sa.Proposals = append(sa.Proposals, p)
	b, err := sa.Marshal()
	if err != nil {
		return nil, err
	}
	r := &message.SecurityAssociation{}
	if err := r.Unmarshal(b); err != nil {
		return nil, err
	}
	return r.Proposals[0], nil
}

func c11IKEProposal(c *engine.Ctx, cfg []int) {
	// twice: the proposal obtained first is edited by its holder before the second one is asked for
	c11IKEProposalOnce(c, cfg)
	c11IKEProposalOnce(c, cfg)
}

func c11IKEProposalOnce(c *engine.Ctx, cfg []int) {
	c.Evals++
	cc := c07Case{PRF: cfg[0], Integ: cfg[1], Encr: cfg[2], DH: cfg[3]}
	cs := c11Case{K: "proposal-ike", Cfg: cfg}
	src := infoSA(cc)
	prop, err := src.ToProposal()
	if err != nil {
		c.Violate("proposal-ike/toproposal", errStr(err), cs)
		return
	}
	rp, err := proposalViaWire(prop)
	if err != nil {
		c.Violate("proposal-ike/wire", errStr(err), cs)
		return
	}
	seam := engine.NewSeam(nil, nil)
	restore := engine.Install(seam)
	var sa *security.IKESAKey
	pi := engine.Catch(func() { sa, _, err = security.NewIKESAKey(rp, []byte{2}, univ.Pat(32, 1), 1, 2) })
	restore()
	if pi != nil {
		c.Violate(pi.Sig(), "NewIKESAKey panics: "+pi.Value, cs)
		return
	}
	if err != nil {
		c.Violate("proposal-ike/rejected", fmt.Sprintf("cfg %v: %s", cfg, errStr(err)), cs)
		return
	}
	p, ig, el := ref.PRFs[cfg[0]], ref.Integs[cfg[1]], ref.EncrKeyLens[cfg[2]]
	if sa.PrfInfo.TransformID() != p.ID || sa.PrfInfo.GetKeyLength() != p.KeyLen || sa.IntegInfo.TransformID() != ig.ID || sa.IntegInfo.GetKeyLength() != ig.KeyLen ||
		sa.IntegInfo.GetOutputLength() != ig.OutLen || sa.EncrInfo.TransformID() != ref.EncrAESCBC || sa.EncrInfo.GetKeyLength() != el || sa.DhInfo.TransformID() != dhIDs[cfg[3]] {
		c.Violate("proposal-ike/not-faithful", fmt.Sprintf("cfg %v negotiated prf %d integ %d/%d encr %d/%d dh %d", cfg, sa.PrfInfo.TransformID(), sa.IntegInfo.TransformID(), sa.IntegInfo.GetKeyLength(),
			sa.EncrInfo.TransformID(), sa.EncrInfo.GetKeyLength(), sa.DhInfo.TransformID()), cs)
		return
	}
	c.DistinctS(fmt.Sprint("ikeprop", cfg))
	engine.Scribble(prop)
}

func c11ChildProposal(c *engine.Ctx, cfg []int) {
	c11ChildProposalOnce(c, cfg)
	c11ChildProposalOnce(c, cfg)
}

func c11ChildProposalOnce(c *engine.Ctx, cfg []int) {
	c.Evals++
	cs := c11Case{K: "proposal-child", Cfg: cfg}
	ch := &security.ChildSAKey{EncrKInfo: encr.StrToKType(univ.EncrName(ref.EncrKeyLens[cfg[0]]))}
	if cfg[1] >= 0 {
		ch.IntegKInfo = integ.StrToKType(univ.IntegName(ref.Integs[cfg[1]]))
	}
	if cfg[2] >= 0 {
		ch.DhInfo = dh.StrToType(dhNames[cfg[2]])
	}
	var err error
	ch.EsnInfo, err = esn.StrToType([]string{"ESN_DISABLE", "ESN_ENABLE"}[cfg[3]])
	if err != nil || ch.EncrKInfo == nil {
		c.Violate("proposal-child/registry", fmt.Sprint(err), cs)
		return
	}
	prop, err := ch.ToProposal()
	if err != nil {
		c.Violate("proposal-child/toproposal", errStr(err), cs)
		return
	}
	rp, err := proposalViaWire(prop)
	if err != nil {
		c.Violate("proposal-child/wire", errStr(err), cs)
		return
	}
	var got *security.ChildSAKey
	if pi := engine.Catch(func() { got, err = security.NewChildSAKeyByProposal(rp) }); pi != nil {
		c.Violate(pi.Sig(), "NewChildSAKeyByProposal panics: "+pi.Value, cs)
		return
	}
	if err != nil {
		if cfg[1] < 0 {
			c.Count("child_proposal_without_integrity_refused(allowed)", 1)
			return
		}
		c.Violate("proposal-child/rejected", fmt.Sprintf("cfg %v: %s", cfg, errStr(err)), cs)
		return
	}
	bad := got.EncrKInfo == nil || got.EncrKInfo.TransformID() != ref.EncrAESCBC || got.EncrKInfo.GetKeyLength() != ref.EncrKeyLens[cfg[0]]
	if cfg[1] >= 0 {
		bad = bad || got.IntegKInfo == nil || got.IntegKInfo.TransformID() != ref.Integs[cfg[1]].ID || got.IntegKInfo.GetKeyLength() != ref.Integs[cfg[1]].KeyLen
	} else {
		bad = bad || got.IntegKInfo != nil
	}
	if cfg[2] >= 0 {
		bad = bad || got.DhInfo == nil || got.DhInfo.TransformID() != dhIDs[cfg[2]]
	} else {
		bad = bad || got.DhInfo != nil
	}
	bad = bad || got.EsnInfo.GetNeedESN() != (cfg[3] == 1)
	if bad {
		c.Violate("proposal-child/not-faithful", fmt.Sprintf("cfg %v", cfg), cs)
		return
	}
	c.DistinctS(fmt.Sprint("childprop", cfg))
	engine.Scribble(prop)
}

// c11BadProposal: a proposal whose transform in one slot is unsupported must not yield an SA.
func c11BadProposal(c *engine.Ctx, slot int, t ref.Transform) {
	c.Evals++
	cs := c11Case{K: "bad-proposal", Slot: slot, T: t}
	if allowed, _, _, _ := c11Expected(t); allowed {
		return
	}
	good, _ := infoSA(c07Case{PRF: 2, Integ: 2, Encr: 0, DH: 0}).ToProposal()
	lt := libTransform(t)
	if lt == nil {
		return
	}
	switch slot {
	case 1:
		good.EncryptionAlgorithm = message.TransformContainer{lt}
	case 2:
		good.PseudorandomFunction = message.TransformContainer{lt}
	case 3:
		good.IntegrityAlgorithm = message.TransformContainer{lt}
	case 4:
		good.DiffieHellmanGroup = message.TransformContainer{lt}
	case 5:
		// child SA only
	}
	if slot <= 4 {
		rp, err := proposalViaWire(good)
		if err != nil {
			return
		}
		seam := engine.NewSeam(nil, nil)
		restore := engine.Install(seam)
		var sa *security.IKESAKey
		pi := engine.Catch(func() { sa, _, err = security.NewIKESAKey(rp, []byte{2}, univ.Pat(32, 1), 1, 2) })
		restore()
		if pi != nil {
			c.Violate(pi.Sig(), fmt.Sprintf("NewIKESAKey with unsupported %s panics: %s", t.Canon(), pi.Value), cs)
			return
		}
		if err == nil && sa != nil {
			c.Violate(fmt.Sprintf("bad-proposal-accepted/ike/slot%d", slot), fmt.Sprintf("IKE SA built from a proposal containing unsupported %s", t.Canon()), cs)
			return
		}
		c.Count("bad_ike_proposals_refused", 1)
	}
	// child
	ch := &security.ChildSAKey{EncrKInfo: encr.StrToKType("ENCR_AES_CBC_128"), IntegKInfo: integ.StrToKType("AUTH_HMAC_SHA1_96"), DhInfo: dh.StrToType("DH_2048_BIT_MODP")}
	ch.EsnInfo, _ = esn.StrToType("ESN_DISABLE")
	cp, err := ch.ToProposal()
	if err != nil {
		return
	}
	switch slot {
	case 1:
		cp.EncryptionAlgorithm = message.TransformContainer{lt}
	case 2:
		return
	case 3:
		cp.IntegrityAlgorithm = message.TransformContainer{lt}
	case 4:
		cp.DiffieHellmanGroup = message.TransformContainer{lt}
	case 5:
		cp.ExtendedSequenceNumbers = message.TransformContainer{lt}
	}
	rp, err := proposalViaWire(cp)
	if err != nil {
		return
	}
	var got *security.ChildSAKey
	if pi := engine.Catch(func() { got, err = security.NewChildSAKeyByProposal(rp) }); pi != nil {
		c.Violate(pi.Sig(), "NewChildSAKeyByProposal panics: "+pi.Value, cs)
		return
	}
	if err == nil && got != nil {
		c.Violate(fmt.Sprintf("bad-proposal-accepted/child/slot%d", slot), fmt.Sprintf("Child SA built from a proposal containing unsupported %s", t.Canon()), cs)
		return
	}
	c.Count("bad_child_proposals_refused", 1)
}
