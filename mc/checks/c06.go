package checks

import (
	"bytes"
	"encoding/json"
	"fmt"

	ike "github.com/free5gc/ike"
	"github.com/free5gc/ike/message"

	"verif/mc/engine"
	"verif/mc/ref"
	"verif/mc/univ"
)

// C06 — SK payload per RFC 7296 section 3.14; interoperability with the independent peer.

type c06Case struct {
	K       string  `json:"k"` // lib2ref | ref2lib
	Name    string  `json:"name"`
	M       ref.Msg `json:"m"`
	Suite   int     `json:"suite"`
	Pattern int     `json:"pattern"`
	SenderI bool    `json:"sender_initiator"`
	PadLen  int     `json:"padlen"`
	PadPat  int     `json:"padpat"`
	IVPat   int     `json:"ivpat"`
	Warm    int     `json:"warm"`                  // lib2ref: the sending key object has carried a long (1) / an empty (2) message before
	Env     []int   `json:"env,omitempty"`         // random-source answers during protection (explorer choices)
	SKFlags int     `json:"sk_flags,omitempty"`    // ref2lib: the peer sets this octet as critical flag / reserved bits of the SK generic header (a receiver ignores it; the checksum covers it)
	KeyBuf  bool    `json:"key_scratch,omitempty"` // lib2ref: the sender's security objects were made from one scratch buffer that the caller refilled per key and wiped afterwards
	Again   int     `json:"again,omitempty"`       // lib2ref: (4: a second message object built over the same payload slice is protected after the first; its datagram is the one examined) the same message object is protected a second time after 1: the Message ID changed, 2: under another SA (rekey), 3: by the other role; the second datagram is the one examined
}

func init() {
	engine.Register(&engine.Check{
		ID:    "C06",
		Level: "model_checking",
		Rule: "(a) every library-protected message of the universe (sequences up to the depth bound) × 9 suites × both directions × key patterns is verified, decrypted and parsed by the independent RFC 7296 §3.14 receiver (own CBC over the AES block, own HMAC): cleartext header, single SK, SK.next, IV‖CBC(inner‖pad‖padlen) under the sender's SK_e, ICV = trunc(HMAC(SK_a, everything before it)), final lengths; " +
			"a second protection of one message object (other Message ID / SA / role), a second message object built over the same payload slice, and sender key objects made from one scratch buffer that the caller refilled per key and wiped are judged the same way; " +
			"(b) reference-protected messages with every legal pad length 0..255 (16 per message) × pad octet patterns {0x00,0xFF,counting,=padlen} × IV patterns are given to DecodeDecrypt. distinct_nontrivial = distinct protected datagrams with >= 1 inner payload accepted by the other side",
		Assumptions: []string{"trusted primitives shared by both sides: AES block function, MD5/SHA-1/SHA-256 compression"},
		Run:         runC06,
		Replay: func(c *engine.Ctx, raw json.RawMessage) {
			var cs c06Case
			unmarshalCase(raw, &cs)
			if cs.K == "ref2lib-unknown-first" {
				c06Unknown(c) // (the sub-check is small: the replay runs it whole)
				return
			}
			evalC06(c, cs)
		},
	})
}

func padBytes(n, pat int) []byte {
	b := make([]byte, n)
	for i := range b {
		switch pat {
		case 0:
			b[i] = 0
		case 1:
			b[i] = 0xff
		case 2:
			b[i] = byte(i + 1)
		case 3:
			b[i] = byte(n)
		}
	}
	return b
}

// c06Headers: every exchange type × the flag combinations × both roles (whatever the header says, a message handed to
// EncodeEncrypt with keys goes out protected and the peer reads the header it was given)
func c06Headers(c *engine.Ctx) {
	al := univ.Alphabet()
	for ex := 0; ex < 256; ex++ {
		if !c.Mine() {
			continue
		}
		for fi, fl := range []uint8{0x00, 0x08, 0x20, 0x28, 0x10, 0xff} {
			h := univ.BaseHdr
			h.Exch, h.Flags, h.MsgID = uint8(ex), fl, uint32(ex)
			m := ref.Msg{H: h, P: []ref.Payload{al[(ex+fi)%len(al)].P}}
			evalC06(c, c06Case{K: "lib2ref", Name: fmt.Sprintf("hdr.exch×flags=%d/%02x", ex, fl), M: m, Suite: (ex + fi) % 9, Pattern: 2, SenderI: (ex+fi)%2 == 0})
		}
	}
}

// c06Unknown: a peer that implements more than the library places a payload of a type the library does not know, with
// the critical flag clear, first in the inner chain (or sends nothing else): the message is accepted and read as the
// same message without that payload.
func c06Unknown(c *engine.Ctx) {
	al := univ.Alphabet()
	for ai := -1; ai < len(al); ai += 3 {
		for si := 0; si < 9; si++ {
			if !c.Mine() {
				continue
			}
			for ti, t := range []uint8{49, 53, 60, 200, 255} {
				m := ref.Msg{H: univ.BaseHdr}
				if ai >= 0 {
					m.P = []ref.Payload{al[ai].P}
				}
				senderI := (si+ti)%2 == 0
				cs := c06Case{K: "ref2lib-unknown-first", Name: fmt.Sprintf("unknown type %d first, then %d payloads", t, len(m.P)), M: m, Suite: si, Pattern: 2, SenderI: senderI, PadPat: int(t)}
				c.Evals++
				c.Transitions++
				ks := univ.MakeKeySet(si, 2, 2)
				ske, ska := ks.DirKeys(senderI)
				first, inner, err := ref.EncodeChain(m.P, ref.Lib{})
				if err != nil {
					continue
				}
				body := univ.Pat(ti*3, ti)
				pt := append([]byte{first, 0, 0, byte(4 + len(body))}, body...)
				pt = append(pt, inner...)
				pad := (16 - (len(pt)+1)%16) % 16
				pt = append(append(pt, univ.Pat(pad, 9)...), byte(pad))
				b := ref.ProtectRaw(ks.Suite, ske, ska, m.H, t, pt, univ.Pat(16, 70+ti), -1)
				sa, err := univ.NewSA(ks)
				if err != nil {
					continue
				}
				var got *message.IKEMessage
				if pi := engine.Catch(func() { got, err = ike.DecodeDecrypt(b, nil, sa, roleOf(!senderI)) }); pi != nil {
					c.Violate(pi.Sig(), "DecodeDecrypt panics: "+pi.Value, cs)
					continue
				}
				if err != nil {
					c.Violate("ref2lib/rejected/unknown-noncritical-first", fmt.Sprintf("%s, %v: a genuine message whose inner chain starts with a non-critical payload of unknown type %d is refused: %s", cs.Name, ks.Suite, t, errStr(err)), cs)
					continue
				}
				if g := univ.Project(got); g.Canon() != m.Canon() {
					c.Violate("ref2lib/fields/unknown-noncritical-first", fmt.Sprintf("%s: got %s", cs.Name, trs(g.Canon())), cs)
					continue
				}
				c.Count("unknown_first_accepted", 1)
			}
		}
	}
}

func runC06(c *engine.Ctx) {
	c06Unknown(c)
	c06Headers(c)
	c06Boundary(c)
	c06Env(c)
	patterns := []int{2, 3 + int(c.Seed%5)}
	if c.Thorough() {
		patterns = []int{0, 1, 2, 3 + int(c.Seed%5)}
	}
	univ.Messages(depthFor(c), func(name string, m ref.Msg) {
		if !c.Mine() {
			return
		}
		_, inner, err := ref.EncodeChain(m.P, ref.Lib{})
		if err != nil {
			return
		}
		for si := 0; si < 9; si++ {
			for _, sI := range []bool{true, false} {
				for _, pat := range patterns {
					evalC06(c, c06Case{K: "lib2ref", Name: name, M: m, Suite: si, Pattern: pat, SenderI: sI})
					if pat == 2 {
						evalC06(c, c06Case{K: "lib2ref", Name: name, M: m, Suite: si, Pattern: pat, SenderI: sI, Warm: 1 + (si+b2int(sI))%2})
						if len(m.P) <= 1 {
							for ag := 1; ag <= 3; ag++ {
								evalC06(c, c06Case{K: "lib2ref", Name: name, M: m, Suite: si, Pattern: pat, SenderI: sI, Again: ag})
							}
						}
						if len(m.P) >= 1 && len(m.P) <= 2 {
							evalC06(c, c06Case{K: "lib2ref", Name: name, M: m, Suite: si, Pattern: pat, SenderI: sI, Again: 4})
						}
						if len(m.P) <= 1 {
							evalC06(c, c06Case{K: "lib2ref", Name: name, M: m, Suite: si, Pattern: pat, SenderI: sI, Warm: 4})
						}
						if len(m.P) <= 1 {
							evalC06(c, c06Case{K: "lib2ref", Name: name, M: m, Suite: si, Pattern: pat, SenderI: sI, KeyBuf: true})
						}
					}
				}
				minPad := (16 - (len(inner)+1)%16) % 16
				if len(m.P) <= 1 {
					for p := minPad; p <= 255; p += 16 {
						for pp := 0; pp < 4; pp++ {
							for iv := 0; iv < 2; iv++ {
								evalC06(c, c06Case{K: "ref2lib", Name: name, M: m, Suite: si, Pattern: 2, SenderI: sI, PadLen: p, PadPat: pp, IVPat: iv})
							}
						}
					}
					for _, fl := range []int{0x80, 0x01, 0x7f, 0xff} {
						evalC06(c, c06Case{K: "ref2lib", Name: name, M: m, Suite: si, Pattern: 2, SenderI: sI, PadLen: minPad, PadPat: 1, IVPat: 1, SKFlags: fl})
					}
				} else {
					maxPad := minPad + 16*((255-minPad)/16)
					evalC06(c, c06Case{K: "ref2lib", Name: name, M: m, Suite: si, Pattern: 2, SenderI: sI, PadLen: minPad, PadPat: 2, IVPat: 1})
					evalC06(c, c06Case{K: "ref2lib", Name: name, M: m, Suite: si, Pattern: 3, SenderI: sI, PadLen: maxPad, PadPat: 1, IVPat: 0})
				}
			}
		}
	})
}

// c06Run is the explorer run that drives the random source during an environment exploration (nil otherwise).
var c06Run *engine.Run

// c06Env: whatever the random source answers during protection (degenerate content, short reads, failures),
// a datagram that EncodeEncrypt does return must be accepted and read by the independent peer.
func c06Env(c *engine.Ctx) {
	al := univ.Alphabet()
	for ai := 0; ai < len(al); ai += 4 {
		for si := 0; si < 9; si++ {
			if !c.Mine() {
				continue
			}
			m := ref.Msg{H: univ.BaseHdr, P: []ref.Payload{al[ai].P}}
			st := engine.Explore(2, 0, func(r *engine.Run) {
				c06Run = r
				evalC06(c, c06Case{K: "lib2ref", Name: al[ai].Name + "(env)", M: m, Suite: si, Pattern: 2, SenderI: (ai+si)%2 == 0})
				c06Run = nil
			}, func(r *engine.Run) {})
			c.Count("env_executions", st.Executions)
		}
	}
}

func c06Boundary(c *engine.Ctx) {
	for inner := 65466; inner <= 65496; inner++ {
		for si := 0; si < 9; si++ {
			if !c.Mine() {
				continue
			}
			m := ref.Msg{H: univ.BaseHdr, P: []ref.Payload{{T: ref.PNonce, Data: univ.Pat(inner-4, inner)}}}
			evalC06(c, c06Case{K: "lib2ref", Name: fmt.Sprintf("protected.inner=%d", inner), M: m, Suite: si, Pattern: 2, SenderI: inner%2 == 0})
			pad := (16 - (inner+1)%16) % 16
			evalC06(c, c06Case{K: "ref2lib", Name: fmt.Sprintf("protected.inner=%d", inner), M: m, Suite: si, Pattern: 2, SenderI: inner%2 == 1, PadLen: pad, PadPat: 2, IVPat: 1})
		}
	}
}

func evalC06(c *engine.Ctx, cs c06Case) {
	c.Evals++
	c.Transitions++
	m := cs.M
	ks := univ.MakeKeySet(cs.Suite, 2, cs.Pattern)
	ske, ska := ks.DirKeys(cs.SenderI)
	dir := map[bool]string{true: "I->R", false: "R->I"}[cs.SenderI]
	if cs.K == "lib2ref" {
		sa, err := univ.NewSA(ks)
		if cs.KeyBuf {
			sa, err = univ.NewSAScratch(ks)
		}
		if err != nil {
			c.Violate("sa-construction", errStr(err), cs)
			return
		}
		lm, err := univ.Build(m)
		if err != nil {
			c.Violate("build-error", errStr(err), cs)
			return
		}
		var sibling *message.IKEMessage
		if cs.Again == 4 {
			// the same payloads are sent in two messages (a notification under two message IDs): the caller builds
			// both message objects over one payload slice
			h := *lm.IKEHeader
			h.MessageID += 7
			sibling = &message.IKEMessage{IKEHeader: &h, Payloads: lm.Payloads}
		}
		if cs.Warm != 0 {
			peer, _ := univ.NewSA(ks)
			var werr error
			if pi := engine.Catch(func() { werr = warmUp(sa, peer, cs.SenderI, cs.Warm) }); pi != nil || werr != nil {
				c.Violate("warm-up-failed", fmt.Sprintf("%v %v", pi, werr), cs)
				return
			}
		}
		seam := engine.NewSeam(c06Run, []int{engine.AnsA, engine.AnsZero, engine.AnsFF, engine.AnsShort, engine.AnsErr})
		if c06Run == nil && len(cs.Env) > 0 {
			seam.Run = engine.NewReplayRun(cs.Env)
		}
		seam.Stream = uint64(cs.Pattern)
		restore := engine.Install(seam)
		var b []byte
		pi := engine.Catch(func() { b, err = ike.EncodeEncrypt(lm, sa, roleOf(cs.SenderI)) })
		restore()
		if seam.Run != nil {
			cs.Env = seam.Run.Choices()
		}
		retried := ""
		if seam.Failed() && err != nil && pi == nil {
			c.Count("protection_refused_on_source_failure", 1)
			// the caller retries with the same message object once the source is healthy again: what is sent then
			// must still be the message the caller built
			hs := engine.NewSeam(nil, nil)
			hs.Stream = uint64(cs.Pattern) + 100
			rst := engine.Install(hs)
			pi = engine.Catch(func() { b, err = ike.EncodeEncrypt(lm, sa, roleOf(cs.SenderI)) })
			rst()
			if err != nil && pi == nil {
				c.Count("retry_refused", 1)
				return
			}
			retried = "/retry-after-failed-attempt"
		}
		if pi != nil {
			c.Violate(pi.Sig(), "EncodeEncrypt panics: "+pi.Value, cs)
			return
		}
		first := b
		wantHdr := m.H
		wantInnerFirst := -1
		if cs.Again != 0 && err == nil {
			// second protection of the same message object (now holding exactly the Encrypted payload)
			sa2, senderI2 := sa, cs.SenderI
			switch cs.Again {
			case 1:
				lm.IKEHeader.MessageID += 7
				wantHdr.MsgID += 7
			case 2:
				ks = univ.MakeKeySet(cs.Suite, 2, cs.Pattern+1)
				if sa2, err = univ.NewSA(ks); err != nil {
					c.Violate("sa-construction", errStr(err), cs)
					return
				}
			case 3:
				senderI2 = !cs.SenderI
			case 4:
				wantHdr.MsgID += 7
			}
			ske, ska = ks.DirKeys(senderI2)
			hs := engine.NewSeam(nil, nil)
			hs.Stream = uint64(cs.Pattern) + 200
			rst := engine.Install(hs)
			target := lm
			if cs.Again == 4 {
				target = sibling
			}
			pi = engine.Catch(func() { b, err = ike.EncodeEncrypt(target, sa2, roleOf(senderI2)) })
			rst()
			if pi != nil {
				c.Violate(pi.Sig(), "second EncodeEncrypt of the same message object panics: "+pi.Value, cs)
				return
			}
			if err != nil {
				c.Count("second_protection_refused", 1)
				return
			}
			if cs.Again == 4 {
				m.H = wantHdr
				retried = "/second-message-over-the-same-payload-slice"
			} else {
				wantInnerFirst = int(ref.PSK)
				retried = fmt.Sprintf("/second-protection(%d)", cs.Again)
			}
		}
		if err != nil {
			if !protectedFits(m, ks.Suite.Integ.OutLen) {
				return
			}
			c.Violate("protect-error/"+kinds(m.P), fmt.Sprintf("%s %v %s: %s", cs.Name, ks.Suite, dir, errStr(err)), cs)
			return
		}
		c.Traces++
		r, uerr := ref.Unprotect(ks.Suite, ske, ska, b, true)
		if wantInnerFirst >= 0 {
			// the inner chain is the first datagram's Encrypted payload: compare octets (the strict parser does not
			// model an Encrypted payload inside an Encrypted payload)
			if r == nil || (uerr != nil && !contains(uerr.Error(), "inner chain")) {
				c.Violate("lib2ref/"+classifySK(uerr)+retried, fmt.Sprintf("%s %v: independent receiver refuses the second protection of one message object: %v", cs.Name, ks.Suite, uerr), cs)
				return
			}
			if r.H != wantHdr || int(r.First) != wantInnerFirst || !bytes.Equal(r.Inner, first[28:]) {
				c.Violate("lib2ref/inner"+retried, fmt.Sprintf("%s %v: second protection carries header %s first %d inner %s; the message object held the Encrypted payload %s", cs.Name, ks.Suite, r.H.Canon(), r.First, engine.Hex(trunc(r.Inner, 40)), engine.Hex(trunc(first[28:], 40))), cs)
				return
			}
			c.Count("second_protections_verified", 1)
			return
		}
		if uerr != nil {
			// try the opposite direction keys to attribute the failure
			oske, oska := ks.DirKeys(!cs.SenderI)
			why := classifySK(uerr)
			if _, e2 := ref.Unprotect(ks.Suite, oske, oska, b, true); e2 == nil {
				why = "wrong-direction-keys"
			}
			if cs.Warm != 0 {
				why += "/used-sa"
			}
			c.Violate("lib2ref/"+why, fmt.Sprintf("%s %v %s: independent receiver refuses: %v; wire=%s", cs.Name, ks.Suite, dir, uerr, engine.Hex(trunc(b, 100))), cs)
			return
		}
		if r.H != m.H {
			c.Violate("lib2ref/header-changed", fmt.Sprintf("%s: header %s became %s", cs.Name, m.H.Canon(), r.H.Canon()), cs)
			return
		}
		wantFirst := uint8(0)
		if len(m.P) > 0 {
			wantFirst = m.P[0].T
		}
		if r.First != wantFirst {
			c.Violate("lib2ref/sk-next-payload"+retried, fmt.Sprintf("%s: SK next payload %d, first inner payload %d", cs.Name, r.First, wantFirst), cs)
			return
		}
		if ref.CanonPayloads(r.Payloads) != ref.CanonPayloads(m.P) {
			c.Violate("lib2ref/inner/"+ref.FirstDiff(m.P, r.Payloads)+map[bool]string{true: "/used-sa", false: ""}[cs.Warm != 0]+retried, fmt.Sprintf("%s: inner payloads %s", cs.Name, trs(ref.CanonPayloads(r.Payloads))), cs)
			return
		}
		n := len(r.Inner)
		k16 := len(r.Inner) + r.PadLen + 1
		if !(n < k16 && k16 <= n+256 && k16%16 == 0) {
			c.Violate("lib2ref/size-law", fmt.Sprintf("%s: inner %d, padded %d", cs.Name, n, k16), cs)
			return
		}
		h := engine.Hash64(b)
		if c.State(h) {
			c.States++
			if len(m.P) > 0 {
				c.Distinct(h)
			}
		}
		c.Sample("lib2ref", map[string]interface{}{"name": cs.Name, "suite": ks.Suite.String(), "dir": dir, "padlen": r.PadLen, "wire": engine.Hex(trunc(b, 80))})
		return
	}
	// ref2lib
	iv := make([]byte, 16)
	if cs.IVPat == 1 {
		for i := range iv {
			iv[i] = byte(0xf0 + i)
		}
	}
	b, err := ref.Protect(ks.Suite, ske, ska, m, ref.Lib{}, iv, padBytes(cs.PadLen, cs.PadPat))
	if err != nil {
		c.Count("reference_protect_refused", 1)
		return
	}
	if cs.SKFlags != 0 {
		b[29] = byte(cs.SKFlags)
		icvLen := ks.Suite.Integ.OutLen
		copy(b[len(b)-icvLen:], ref.HMAC(ks.Suite.Integ.Digest, ska, b[:len(b)-icvLen])[:icvLen])
	}
	sa, err := univ.NewSA(ks)
	if err != nil {
		c.Violate("sa-construction", errStr(err), cs)
		return
	}
	var got *message.IKEMessage
	pi := engine.Catch(func() { got, err = ike.DecodeDecrypt(b, nil, sa, roleOf(!cs.SenderI)) })
	c.Traces++
	if pi != nil {
		c.Violate(pi.Sig(), fmt.Sprintf("DecodeDecrypt of reference-protected %s (pad %d) panics: %s", cs.Name, cs.PadLen, pi.Value), cs)
		return
	}
	padClass := "pad=min"

	_, inner, _ := ref.EncodeChain(m.P, ref.Lib{})
	if cs.PadLen != (16-(len(inner)+1)%16)%16 {
		padClass = "pad>min"
	}
	if cs.SKFlags != 0 {
		padClass += "/sk-header-flags"
	}
	if err != nil {
		c.Violate("ref2lib/rejected/"+padClass, fmt.Sprintf("%s %v %s pad %d pattern %d: %s", cs.Name, ks.Suite, dir, cs.PadLen, cs.PadPat, errStr(err)), cs)
		return
	}
	// the peer retransmits (the same datagram, octet for octet): the same key object accepts it again
	if cs.PadPat == 0 {
		var again *message.IKEMessage
		var aerr error
		if pi := engine.Catch(func() { again, aerr = ike.DecodeDecrypt(append([]byte(nil), b...), nil, sa, roleOf(!cs.SenderI)) }); pi != nil {
			c.Violate(pi.Sig(), "DecodeDecrypt of a retransmitted datagram panics: "+pi.Value, cs)
			return
		}
		if aerr != nil || again == nil || univ.Project(again).Canon() != m.Canon() {
			c.Violate("ref2lib/retransmission-refused/"+padClass, fmt.Sprintf("%s %v %s: the datagram was accepted, its identical retransmission is not: %v", cs.Name, ks.Suite, dir, aerr), cs)
			return
		}
	}
	g := univ.Project(got)
	if g.Canon() != m.Canon() {
		d := "header"
		if g.H == m.H {
			d = ref.FirstDiff(m.P, g.P)
		}
		c.Violate("ref2lib/fields/"+padClass+"/"+d, fmt.Sprintf("%s %v %s pad %d: got %s", cs.Name, ks.Suite, dir, cs.PadLen, trs(g.Canon())), cs)
		return
	}
	h := engine.Hash64(b)
	if c.State(h) {
		c.States++
		if len(m.P) > 0 {
			c.Distinct(h)
		}
	}
	c.Sample("ref2lib", map[string]interface{}{"name": cs.Name, "suite": ks.Suite.String(), "dir": dir, "padlen": cs.PadLen, "padpat": cs.PadPat})
}

func classifySK(err error) string {
	s := err.Error()
	for _, k := range []string{"ICV mismatch", "header length", "first payload", "SK payload length", "SK generic header", "SK body", "pad length", "inner chain"} {
		if contains(s, k) {
			return k
		}
	}
	return "other"
}
