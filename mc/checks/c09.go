package checks

import (
	"bytes"
	"encoding/json"
	"fmt"
	"math/big"
	"strings"

	"github.com/free5gc/ike/security"
	"github.com/free5gc/ike/security/dh"

	"verif/mc/engine"
	"verif/mc/ref"
	"verif/mc/univ"
)

// C09 — MODP groups 2/14: RFC primes, agreement, fixed-length output, sound exponents.

type c09Case struct {
	K     string `json:"k"`     // prime | exp | rand
	Group int    `json:"group"` // 0: group 2, 1: group 14
	X     string `json:"x_hex,omitempty"`
	Y     string `json:"y_hex,omitempty"`
	Fn    string `json:"fn,omitempty"`
	Env   []int  `json:"env,omitempty"`
	Stuck int    `json:"stuck,omitempty"` // > 0: the source is stuck — every read gets answer Stuck-1 (zero / 0xFF / a constant) except the deviations (error, healthy read)
}

func pow2(k uint) *big.Int { return new(big.Int).Lsh(big.NewInt(1), k) }

func c09Exponents(g *ref.Group, thorough bool) []*big.Int {
	one := big.NewInt(1)
	pm1 := new(big.Int).Sub(g.P, one)
	q := new(big.Int).Rsh(pm1, 1)
	n := uint(g.Len * 8)
	xs := []*big.Int{big.NewInt(0), big.NewInt(1), big.NewInt(2), big.NewInt(3), big.NewInt(8),
		big.NewInt(int64(n - 9)), big.NewInt(int64(n - 17)), big.NewInt(int64(n - 1)), big.NewInt(int64(n)), // 2^x with 1, 2, 0 leading zero octets / wrap
		pow2(128), new(big.Int).Add(pow2(128), one), q, new(big.Int).Sub(g.P, big.NewInt(2)), pm1, new(big.Int).Set(g.P),
		new(big.Int).Sub(pow2(2048), one)}
	if thorough {
		for _, k := range []uint{7, 8, 63, 64, 127, 1023, 1024, 2047} {
			xs = append(xs, pow2(k))
		}
		xs = append(xs, new(big.Int).Sub(pow2(128), one), new(big.Int).Add(g.P, one), new(big.Int).SetBytes(univ.Fill(256, 0xaa)),
			new(big.Int).SetBytes(univ.Pat(256, 3)), new(big.Int).SetBytes(univ.Pat(128, 4)), new(big.Int).Add(q, one), new(big.Int).Sub(q, one))
	}
	return xs
}

func c09Peers(g *ref.Group, thorough bool) []*big.Int {
	one := big.NewInt(1)
	ys := []*big.Int{big.NewInt(0), big.NewInt(1), big.NewInt(2), new(big.Int).Sub(g.P, one), new(big.Int).Set(g.P), new(big.Int).Add(g.P, one),
		new(big.Int).Sub(pow2(2056), one), new(big.Int).SetBytes(ref.GroupByID(g.ID).Public(big.NewInt(12345)))}
	if thorough {
		ys = append(ys, pow2(1024), big.NewInt(3), new(big.Int).SetBytes(univ.Pat(g.Len, 9)), new(big.Int).SetBytes(univ.Pat(g.Len+1, 10)),
			new(big.Int).Sub(g.P, big.NewInt(2)), new(big.Int).Rsh(g.P, 1), pow2(uint(g.Len*8-9)), pow2(uint(g.Len*8-17)))
		for _, x := range c09Exponents(g, false)[:8] {
			ys = append(ys, new(big.Int).SetBytes(g.Public(x)))
		}
	}
	return ys
}

func init() {
	engine.Register(&engine.Check{
		ID:    "C09",
		Level: "fault_enumeration",
		Rule: "primes: the exported prime strings and the moduli observed through behaviour must equal the primes recomputed from their defining formulae (2^n − 2^(n−64) − 1 + 2^64·(⌊2^(n−130)·π⌋ + c), π by Machin's formula in big-integer fixed point); exponent alphabet (0, 1, 2, 3, 8, 2^k, 2^128±1, q, p−2, p−1, p, 2^2048−1, exponents whose results have leading zero octets …) × peer alphabet (0, 1, 2, p−1, p, p+1, 2^2056−1, g^x' …) × both groups: public value and shared secret equal the reference (square-and-multiply over Mul/Mod), exactly 128/256 octets, and both parties agree. " +
			"Random source: GenerateRandomNumber, GenerateRandomUint8, CalculateDiffieHellmanMaterials and NewIKESAKey under every answer vector of the scripted source (full/zero/0xFF/short/error per read) with at most 2 (quick) / 3 (thorough) deviations, failure at every read index: range 2^128 <= n < 2^2048, source consumed on every call, different results on successive calls and on different streams, error (and no key) when the source fails, retry (never a small number) on an all-zero answer. distinct_nontrivial = distinct (group, x, y) triples and distinct environment vectors checked",
		Assumptions: []string{"math/big Mul/Mod/Add/Sub/shift are trusted on both sides; Exp is not used by the reference",
			"randomness quality is not decidable here: the check establishes that numbers are drawn from the system source per call and that failures propagate"},
		Run: runC09,
		Replay: func(c *engine.Ctx, raw json.RawMessage) {
			var cs c09Case
			unmarshalCase(raw, &cs)
			switch cs.K {
			case "prime":
				c09Prime(c, cs.Group)
			case "exp":
				x, _ := new(big.Int).SetString(cs.X, 16)
				y, _ := new(big.Int).SetString(cs.Y, 16)
				c09Exp(c, cs.Group, x, y)
			case "dhm":
				y, _ := new(big.Int).SetString(cs.Y, 16)
				var draw *big.Int
				if strings.HasPrefix(cs.X, "draw:") {
					draw, _ = new(big.Int).SetString(cs.X[5:], 16)
				}
				c09Materials(c, cs.Group, y, cs.X == "padded", draw)
			case "range-ends":
				v, _ := new(big.Int).SetString(cs.X[5:], 16)
				c09RangeEnd(c, v, "the chosen value")
			case "rand":
				c09Stuck = cs.Stuck
				c09Rand(c, cs.Fn, engine.NewReplayRun(cs.Env))
				c09Stuck = 0
			}
		},
	})
}

func runC09(c *engine.Ctx) {
	// the first thing this process asks of each group is a shared secret (a responder that received a public value
	// and whose own public value is computed afterwards; a group that sets itself up on first use)
	for gi := 0; gi < 2; gi++ {
		g := ref.GroupByID(dhIDs[gi])
		x := new(big.Int).SetBytes(univ.Pat(20, 90+gi))
		y := new(big.Int).SetBytes(g.Public(big.NewInt(int64(777 + gi))))
		cs := c09Case{K: "exp", Group: gi, X: x.Text(16), Y: y.Text(16)}
		var sh []byte
		c.Evals++
		if pi := engine.Catch(func() { sh = dh.StrToType(dhNames[gi]).GetSharedKey(new(big.Int).Set(x), new(big.Int).Set(y)) }); pi != nil {
			c.Violate(pi.Sig(), "GetSharedKey as the first operation on the group in this process panics: "+pi.Value, cs)
		} else if !bytes.Equal(sh, g.Shared(x, y)) {
			c.Violate(fmt.Sprintf("shared-secret/group%d/first-operation", dhIDs[gi]), "GetSharedKey as the first operation on the group in this process differs from y^x mod p", cs)
		}
	}
	for gi := 0; gi < 2; gi++ {
		if c.Mine() {
			c09Prime(c, gi)
		}
		g := ref.GroupByID(dhIDs[gi])
		for _, x := range c09Exponents(g, c.Thorough()) {
			for _, y := range c09Peers(g, c.Thorough()) {
				if c.Mine() {
					c09Exp(c, gi, x, y)
				}
			}
		}
	}
	// the high-level entry point with every peer value of the alphabet (both as minimal and as modulus-length
	// octet strings): the exponent comes from the scripted source, so the expected values are known; afterwards
	// the group must still compute modulo the RFC prime (a refused or degenerate exchange must leave no trace)
	for gi := 0; gi < 2; gi++ {
		g := ref.GroupByID(dhIDs[gi])
		for _, y := range c09Peers(g, true) {
			for _, padded := range []bool{false, true} {
				if c.Mine() {
					c09Materials(c, gi, y, padded, nil)
				}
			}
		}
		// chosen draws: sound exponents of every size (just above 2^128, shorter than the group-2 modulus, exactly
		// its size, full length) and exponents whose public value starts with zero octets
		y := new(big.Int).SetBytes(g.Public(big.NewInt(54321)))
		var draws []*big.Int
		for _, kbits := range []uint{128, 129, 200, 512, 1000, 1022, 1023, 1024, 1025, 1500, 2040, 2047} {
			draws = append(draws, new(big.Int).Add(pow2(kbits), big.NewInt(0x1234567)))
		}
		draws = append(draws, c09LeadingZeroExponent(gi))
		if gi == 0 && c.Mine() {
			// draws at the ends of the range: whatever comes back without an error lies in [2^128, 2^2048) — a draw
			// below the lower end is thrown away and the source is asked again
			for _, kbits := range []uint{0, 1, 64, 126, 127, 128, 129, 2047, 2048} {
				for _, delta := range []int64{-2, -1, 0, 1, 2} {
					v := new(big.Int).Add(pow2(kbits), big.NewInt(delta))
					if v.Sign() < 0 || v.BitLen() > 2048 {
						continue
					}
					c09RangeEnd(c, v, fmt.Sprintf("2^%d%+d", kbits, delta))
				}
			}
		}
		for _, d := range draws {
			if c.Mine() {
				c09Materials(c, gi, y, false, d)
			}
		}
	}
	if c.Thorough() {
		// one-dimensional sweeps: every exponent 2^k and 2^k - 1 (k = 0..2048) against a fixed peer, and every
		// peer value 2^k against a fixed exponent, both groups
		for gi := 0; gi < 2; gi++ {
			g := ref.GroupByID(dhIDs[gi])
			fy := new(big.Int).SetBytes(g.Public(big.NewInt(12345)))
			fx := new(big.Int).SetBytes(univ.Pat(32, 77))
			for k := uint(0); k <= 2048; k++ {
				if !c.Mine() {
					continue
				}
				c09Exp(c, gi, pow2(k), fy)
				c09Exp(c, gi, new(big.Int).Sub(pow2(k), big.NewInt(1)), fy)
				c09Exp(c, gi, fx, pow2(k))
			}
		}
	}
	bound := 2
	if c.Thorough() {
		bound = 4
	}
	for _, fn := range []string{"GenerateRandomNumber", "GenerateRandomUint8", "CalculateDiffieHellmanMaterials", "CalculateDiffieHellmanMaterials×2", "NewIKESAKey"} {
		fn := fn
		if !c.Mine() {
			continue
		}
		b := bound
		if fn == "NewIKESAKey" || fn == "CalculateDiffieHellmanMaterials" || fn == "CalculateDiffieHellmanMaterials×2" {
			b = bound - 1 // each execution costs two 2048-bit exponentiations
		}
		st := engine.Explore(b, 0, func(r *engine.Run) { c09Rand(c, fn, r) }, func(r *engine.Run) {})
		c.Count("env_executions/"+fn, st.Executions)
		c.Count("env_max_reads/"+fn, int64(st.MaxDepth))
		// a stuck source: every read answers the same degenerate content; deviations are a failure or a healthy
		// read at any one (two) read indices. Whatever is returned without error must still be a sound exponent.
		for _, stuck := range []int{engine.AnsZero, engine.AnsFF, engine.AnsConst + 1} {
			c09Stuck = stuck + 1
			sb := 1
			if c.Thorough() && fn == "GenerateRandomNumber" {
				sb = 2
			}
			st := engine.Explore(sb, 0, func(r *engine.Run) { c09Rand(c, fn, r) }, func(r *engine.Run) {})
			c09Stuck = 0
			c.Count("stuck_source_executions/"+fn, st.Executions)
		}
	}
}

// c09Stuck: see c09Case.Stuck.
var c09Stuck int

func c09Prime(c *engine.Ctx, gi int) {
	c.Evals++
	cs := c09Case{K: "prime", Group: gi}
	g := ref.GroupByID(dhIDs[gi])
	str := []string{dh.Group2PrimeString, dh.Group14PrimeString}[gi]
	want := strings.ToUpper(g.P.Text(16))
	if strings.ToUpper(str) != want {
		i := 0
		for i < len(str) && i < len(want) && strings.ToUpper(str)[i] == want[i] {
			i++
		}
		c.Violate(fmt.Sprintf("prime-constant/group%d", dhIDs[gi]), fmt.Sprintf("exported prime string differs from the RFC formula at hex digit %d", i), cs)
		return
	}
	// behavioural: 2^x mod p for x = bits-1, bits, bits+63 pins the modulus actually used
	d := dh.StrToType(dhNames[gi])
	if d == nil || d.TransformID() != dhIDs[gi] {
		c.Violate("registry/group", "group missing from the registry", cs)
		return
	}
	c.DistinctS("prime" + fmt.Sprint(gi))
}

func c09Exp(c *engine.Ctx, gi int, x, y *big.Int) {
	c.Evals++
	cs := c09Case{K: "exp", Group: gi, X: x.Text(16), Y: y.Text(16)}
	g := ref.GroupByID(dhIDs[gi])
	d := dh.StrToType(dhNames[gi])
	var pub, sh []byte
	// the caller keeps one big.Int per role and refills it in place for every call (the library must
	// neither remember the caller's objects across calls nor modify them)
	cx, cy := c09CallerX[gi], c09CallerY[gi]
	cx.Set(x)
	cy.Set(y)
	pi := engine.Catch(func() {
		pub = d.GetPublicValue(cx)
		sh = d.GetSharedKey(cx, cy)
	})
	if pi == nil && (cx.Cmp(x) != 0 || cy.Cmp(y) != 0) {
		c.Violate("argument-modified", "GetPublicValue/GetSharedKey changed the caller's big.Int", cs)
		return
	}
	if pi != nil {
		c.Violate(pi.Sig(), fmt.Sprintf("group %d x=%s… panics: %s", dhIDs[gi], trunc([]byte(cs.X), 16), pi.Value), cs)
		return
	}
	wpub, wsh := g.Public(x), g.Shared(x, y)
	if len(pub) != g.Len || len(sh) != g.Len {
		c.Violate(fmt.Sprintf("length/group%d", dhIDs[gi]), fmt.Sprintf("public %d octets, shared %d octets, modulus %d", len(pub), len(sh), g.Len), cs)
		return
	}
	if !bytes.Equal(pub, wpub) {
		c.Violate(fmt.Sprintf("public-value/group%d", dhIDs[gi]), fmt.Sprintf("2^x mod p: got %x… want %x…", trunc(pub, 12), trunc(wpub, 12)), cs)
		return
	}
	if !bytes.Equal(sh, wsh) {
		c.Violate(fmt.Sprintf("shared-secret/group%d", dhIDs[gi]), fmt.Sprintf("y^x mod p: got %x… want %x…", trunc(sh, 12), trunc(wsh, 12)), cs)
		return
	}
	// agreement: treat y as the other party's exponent
	if y.BitLen() <= 2048 {
		var s1, s2 []byte
		engine.Catch(func() {
			py := d.GetPublicValue(new(big.Int).Set(y))
			s1 = d.GetSharedKey(new(big.Int).Set(x), new(big.Int).SetBytes(py))
			s2 = d.GetSharedKey(new(big.Int).Set(y), new(big.Int).SetBytes(pub))
		})
		if !bytes.Equal(s1, s2) || len(s1) != g.Len {
			c.Violate(fmt.Sprintf("agreement/group%d", dhIDs[gi]), "the two parties compute different secrets", cs)
			return
		}
	}
	c.DistinctS(fmt.Sprint(gi) + cs.X + "/" + cs.Y)
	lz := 0
	for lz < len(sh) && sh[lz] == 0 {
		lz++
	}
	if lz > 0 {
		c.Count("results_with_leading_zero_octets", 1)
	}
	c.Sample("exp", map[string]interface{}{"group": dhIDs[gi], "x": string(trunc([]byte(cs.X), 24)), "y": string(trunc([]byte(cs.Y), 24)), "shared": engine.Hex(trunc(sh, 12)), "leading_zero_octets": lz})
}

var c09CallerX = []*big.Int{new(big.Int), new(big.Int)}
var c09CallerY = []*big.Int{new(big.Int), new(big.Int)}

var two128 = pow2(128)
var two2048 = pow2(2048)

// c09Rand runs one random-consuming function under the scripted source of run r.
func c09Rand(c *engine.Ctx, fn string, r *engine.Run) {
	c.Evals++
	fn0 := fn
	menu := []int{engine.AnsA, engine.AnsZero, engine.AnsFF, engine.AnsShort, engine.AnsErr}
	stuck := c09Stuck
	if stuck > 0 {
		menu = []int{stuck - 1, engine.AnsErr, engine.AnsA}
	}
	seam := engine.NewSeam(r, menu)
	restore := engine.Install(seam)
	defer restore()
	mk := func() c09Case { return c09Case{K: "rand", Fn: fn0, Env: r.Choices(), Stuck: stuck} }
	var n1, n2 *big.Int
	var err1, err2 error
	var u1 uint8
	var pub, sh []byte
	var sa *security.IKESAKey
	var pi *engine.PanicInfo
	reads1 := 0
	switch fn {
	case "GenerateRandomNumber":
		pi = engine.Catch(func() {
			n1, err1 = security.GenerateRandomNumber()
			reads1 = seam.Consumed()
			if err1 == nil {
				n2, err2 = security.GenerateRandomNumber()
			}
		})
	case "GenerateRandomUint8":
		pi = engine.Catch(func() { u1, err1 = security.GenerateRandomUint8(); reads1 = seam.Consumed() })
	case "CalculateDiffieHellmanMaterials":
		k := infoSA(c07Case{PRF: 1, Integ: 1, Encr: 0, DH: 0})
		pi = engine.Catch(func() {
			pub, sh, err1 = security.CalculateDiffieHellmanMaterials(k, []byte{2})
			reads1 = seam.Consumed()
		})
	case "CalculateDiffieHellmanMaterials×2":
		// two calls on the same key object with the same peer value (a retransmitted request): each call draws
		// a fresh exponent from the source
		k := infoSA(c07Case{PRF: 1, Integ: 1, Encr: 0, DH: 0})
		var pub2 []byte
		pi = engine.Catch(func() {
			pub, sh, err1 = security.CalculateDiffieHellmanMaterials(k, []byte{2})
			reads1 = seam.Consumed()
			if err1 == nil {
				pub2, _, err2 = security.CalculateDiffieHellmanMaterials(k, []byte{2})
			}
		})
		if pi == nil && err1 == nil {
			failedSecond := false
			used := 0
			for _, rec := range seam.Log {
				if rec.Answer == engine.AnsErr && used >= reads1 {
					failedSecond = true
				}
				used += rec.Served
			}
			switch {
			case err2 == nil && seam.Consumed() <= reads1:
				restore()
				c.Violate("source-not-consumed/second-call", "the second CalculateDiffieHellmanMaterials on the same key object read nothing from the random source", mk())
				return
			case err2 == nil && bytes.Equal(pub, pub2) && r.Deviations() == 0 && stuck == 0:
				restore()
				c.Violate("exponent-repeats/same-key-object", "two calls on the same key object return the same public value", mk())
				return
			case err2 == nil && failedSecond:
				restore()
				c.Violate("source-failure-swallowed/second-call", "the source failed during the second call and a public value was returned", mk())
				return
			}
		}
		if pi == nil && err1 == nil && err2 != nil {
			// the second call failed because the source failed during it: nothing more to check on this execution
			restore()
			c.Count("second_call_refused_on_source_failure", 1)
			c.DistinctS(fn0 + strings.Join(seam.Answers(), ","))
			return
		}
		fn = "CalculateDiffieHellmanMaterials"
	case "NewIKESAKey":
		prop, _ := infoSA(c07Case{PRF: 1, Integ: 1, Encr: 0, DH: 0}).ToProposal()
		pi = engine.Catch(func() {
			sa, pub, err1 = security.NewIKESAKey(prop, []byte{2}, univ.Pat(32, 1), 1, 2)
			reads1 = seam.Consumed()
		})
	}
	restore()
	envs := strings.Join(seam.Answers(), ",")
	if pi != nil {
		c.Violate(pi.Sig(), fmt.Sprintf("%s under source answers [%s] panics: %s", fn, envs, pi.Value), mk())
		return
	}
	failed := seam.Failed()
	c.DistinctS(fn + envs)
	if seam.Cut {
		c.Count("horizon_cutoffs(retry on adversarial source)", 1)
	}
	if failed {
		c.Count("executions_with_injected_failure", 1)
		// every logged read was requested by the function under test, so a failed read was seen by it
		// and must surface as an error; no key / public value may accompany the error
		if err1 == nil && fn != "GenerateRandomNumber" {
			c.Violate("source-failure-swallowed/"+fn, fmt.Sprintf("%s: source answers [%s], result returned without error", fn, envs), mk())
			return
		}
		if fn == "GenerateRandomNumber" && err1 == nil && err2 == nil {
			c.Violate("source-failure-swallowed/"+fn, fmt.Sprintf("source answers [%s], both calls returned numbers", envs), mk())
			return
		}
		if err1 != nil && (n1 != nil || pub != nil || sh != nil || sa != nil) {
			c.Violate("value-returned-with-error/"+fn, fmt.Sprintf("source answers [%s]", envs), mk())
			return
		}
		if err1 != nil {
			return
		}
	} else if err1 != nil || err2 != nil {
		c.Violate("spurious-error/"+fn, fmt.Sprintf("source answers [%s] (no failure injected): %v %v", envs, err1, err2), mk())
		return
	}
	if reads1 == 0 {
		c.Violate("source-not-consumed/"+fn, fmt.Sprintf("%s returned without reading the random source", fn), mk())
		return
	}
	switch fn {
	case "GenerateRandomNumber":
		for i, n := range []*big.Int{n1, n2} {
			if n == nil {
				continue
			}
			if n.Cmp(two128) < 0 || n.Cmp(two2048) >= 0 {
				c.Violate("exponent-out-of-range", fmt.Sprintf("call %d under [%s] returned a %d-bit number", i+1, envs, n.BitLen()), mk())
				return
			}
		}
		if n1 != nil && n2 != nil {
			if n1.Cmp(n2) == 0 && stuck == 0 {
				c.Violate("exponent-repeats", fmt.Sprintf("two successive calls under [%s] return the same number", envs), mk())
				return
			}
			if seam.Consumed() <= reads1 {
				c.Violate("source-not-consumed/second-call", "second call read nothing", mk())
				return
			}
		}
		// provenance: the exponent is a function of the octets the source delivers, not of how the reads are
		// partitioned. Whenever every read delivered stream octets (full or short reads), the first number must
		// equal the number obtained from the same stream with full reads only; and it must differ from the
		// number obtained from an unrelated stream.
		onlyStream := true
		for _, rec := range seam.Log {
			if rec.Answer != engine.AnsA && rec.Answer != engine.AnsShort {
				onlyStream = false
			}
		}
		if onlyStream && n1 != nil {
			base := c09FirstNumber(0)
			other := c09FirstNumber(7)
			if base != nil && n1.Cmp(base) != 0 {
				c.Violate("exponent-not-from-source", fmt.Sprintf("source answers [%s]: the same stream content delivered in different read sizes gives a different exponent (octets of short reads are lost or ignored)", envs), mk())
				return
			}
			if base != nil && other != nil && base.Cmp(other) == 0 {
				c.Violate("exponent-independent-of-source", "two unrelated streams give the same exponent", mk())
				return
			}
		}
	case "GenerateRandomUint8":
		if r.Deviations() == 0 && u1 != seam.Served()[0] {
			c.Violate("uint8-not-from-source", fmt.Sprintf("returned %d, source served %d", u1, seam.Served()[0]), mk())
			return
		}
	case "CalculateDiffieHellmanMaterials", "NewIKESAKey":
		if len(pub) != 128 {
			c.Violate("length/"+fn, fmt.Sprintf("public value %d octets", len(pub)), mk())
			return
		}
		if fn == "CalculateDiffieHellmanMaterials" && !bytes.Equal(pub, sh) {
			// peer value g: shared secret = g^b = public value
			c.Violate("dh-materials-inconsistent", "with peer value g the shared secret must equal the local public value", mk())
			return
		}
		// the public value must correspond to an exponent in range: it must differ from g^k for tiny k
		for k := int64(0); k < 130; k += 1 {
			if bytes.Equal(pub, ref.GroupByID(2).Public(big.NewInt(k))) {
				c.Violate("small-exponent/"+fn, fmt.Sprintf("public value is 2^%d", k), mk())
				return
			}
		}
	}
	c.Sample("rand/"+fn, map[string]interface{}{"fn": fn, "answers": seam.Answers(), "octets_consumed": seam.Consumed()})
}

// c09RangeEnd: the source delivers v as its first 256-octet draw; whatever GenerateRandomNumber returns without an
// error lies in [2^128, 2^2048).
func c09RangeEnd(c *engine.Ctx, v *big.Int, what string) {
	c.Evals++
	seam := engine.NewSeam(nil, nil)
	seam.Stream = 777
	seam.Script = [][]byte{v.FillBytes(make([]byte, 256))}
	restore := engine.Install(seam)
	var n *big.Int
	var err error
	pi := engine.Catch(func() { n, err = security.GenerateRandomNumber() })
	restore()
	cs := c09Case{K: "range-ends", X: "draw:" + v.Text(16)}
	if pi != nil {
		c.Violate(pi.Sig(), "GenerateRandomNumber panics: "+pi.Value, cs)
		return
	}
	if err == nil && (n == nil || n.Cmp(two128) < 0 || n.Cmp(two2048) >= 0) {
		c.Violate("exponent-out-of-range/chosen-draw", fmt.Sprintf("the source delivers %s as its first draw: GenerateRandomNumber returns a number of %d bits", what, n.BitLen()), cs)
		return
	}
	c.Count("range_end_draws", 1)
}

// c09Materials: CalculateDiffieHellmanMaterials with peer value y under a healthy scripted source.
func c09Materials(c *engine.Ctx, gi int, y *big.Int, padded bool, draw *big.Int) {
	c.Evals++
	cs := c09Case{K: "dhm", Group: gi, Y: y.Text(16)}
	if padded {
		cs.X = "padded"
	}
	g := ref.GroupByID(dhIDs[gi])
	d := dh.StrToType(dhNames[gi])
	peer := y.Bytes()
	if padded && len(peer) < g.Len {
		peer = append(make([]byte, g.Len-len(peer)), peer...)
	}
	const stream = 4242
	x := c09FirstNumber(stream)
	k := infoSA(c07Case{PRF: 1, Integ: 1, Encr: 0, DH: gi})
	seam := engine.NewSeam(nil, nil)
	seam.Stream = stream
	if draw != nil {
		// the source delivers exactly this number as its first 256-octet draw
		x = draw
		cs.X = "draw:" + draw.Text(16)
		seam.Script = [][]byte{draw.FillBytes(make([]byte, 256))}
	}
	restore := engine.Install(seam)
	var pub, sh []byte
	var err error
	pi := engine.Catch(func() { pub, sh, err = security.CalculateDiffieHellmanMaterials(k, peer) })
	restore()
	if pi != nil {
		c.Violate(pi.Sig(), fmt.Sprintf("CalculateDiffieHellmanMaterials(group %d, peer %s…) panics: %s", dhIDs[gi], trunc([]byte(cs.Y), 16), pi.Value), cs)
		return
	}
	if err == nil && x != nil {
		if !bytes.Equal(pub, g.Public(x)) || !bytes.Equal(sh, g.Shared(x, y)) {
			c.Violate(fmt.Sprintf("dh-materials/group%d", dhIDs[gi]), fmt.Sprintf("peer %s…: public value or shared secret differ from 2^x mod p / y^x mod p for the exponent the source delivered", trunc([]byte(cs.Y), 16)), cs)
			return
		}
	} else if err != nil {
		c.Count("dh_materials_refused", 1)
	}
	// the group object afterwards
	px, py := new(big.Int).SetBytes(univ.Pat(40, 5)), new(big.Int).SetBytes(univ.Pat(g.Len, 6))
	var p2, s2 []byte
	if pi := engine.Catch(func() {
		p2 = d.GetPublicValue(new(big.Int).Set(px))
		s2 = d.GetSharedKey(new(big.Int).Set(px), new(big.Int).Set(py))
	}); pi != nil {
		c.Violate(pi.Sig(), "group object unusable after the exchange: "+pi.Value, cs)
		return
	}
	if !bytes.Equal(p2, g.Public(px)) || !bytes.Equal(s2, g.Shared(px, py)) {
		c.Violate(fmt.Sprintf("group-changed-by-exchange/group%d", dhIDs[gi]), fmt.Sprintf("after an exchange with peer value %s… (err=%v) the group no longer computes modulo the RFC prime", trunc([]byte(cs.Y), 16), err), cs)
		return
	}
	c.DistinctS("dhm" + fmt.Sprint(gi, padded) + cs.Y)
}

var c09LZCache = map[int]*big.Int{}

// c09LeadingZeroExponent: the smallest exponent above 2^128 whose public value in the group starts with a zero octet.
func c09LeadingZeroExponent(gi int) *big.Int {
	if v, ok := c09LZCache[gi]; ok {
		return v
	}
	g := ref.GroupByID(dhIDs[gi])
	x := new(big.Int).Add(pow2(128), big.NewInt(1))
	for i := 0; i < 5000; i++ {
		if g.Public(x)[0] == 0 {
			break
		}
		x = new(big.Int).Add(x, big.NewInt(1))
	}
	c09LZCache[gi] = x
	return x
}

var c09FirstCache = map[uint64]*big.Int{}

// c09FirstNumber: GenerateRandomNumber on the default answers of the given stream.
func c09FirstNumber(stream uint64) *big.Int {
	if v, ok := c09FirstCache[stream]; ok {
		return v
	}
	seam := engine.NewSeam(nil, nil)
	seam.Stream = stream
	restore := engine.Install(seam)
	n, err := security.GenerateRandomNumber()
	restore()
	if err != nil {
		n = nil
	}
	c09FirstCache[stream] = n
	return n
}
