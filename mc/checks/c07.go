package checks

import (
	"bytes"
	"encoding/json"
	"fmt"
	"hash"
	"math/big"

	ike "github.com/free5gc/ike"
	"github.com/free5gc/ike/message"
	"github.com/free5gc/ike/security"
	"github.com/free5gc/ike/security/dh"
	"github.com/free5gc/ike/security/encr"
	"github.com/free5gc/ike/security/integ"
	"github.com/free5gc/ike/security/lib"
	"github.com/free5gc/ike/security/prf"

	"verif/mc/engine"
	"verif/mc/ref"
	"verif/mc/univ"
)

// C07 — IKE SA keys follow RFC 7296 sections 2.13-2.14 for every negotiable suite.

type c07Case struct {
	K        string   `json:"k"` // derive | twoparty
	PRF      int      `json:"prf"`
	Integ    int      `json:"integ"`
	Encr     int      `json:"encr"`
	DH       int      `json:"dh"` // 0: group 2, 1: group 14
	NonceLen int      `json:"nonce_len"`
	SecLen   int      `json:"secret_len"`
	SPI      int      `json:"spi_pair"`
	Pat      int      `json:"pattern"`
	Via      string   `json:"via"`                                 // raw | proposal
	Then     *c07Case `json:"then,omitempty"`                      // a second derivation after which the first SA is inspected again
	Arena    int      `json:"arena,omitempty"`                     // raw: 1 = Ni|Nr and g^ir are adjacent windows of one caller buffer (nonce first), 2 = secret first
	LZ       bool     `json:"leading_zero_public_value,omitempty"` // twoparty: the responder's first draw is an exponent whose public value starts with a zero octet
}

var spiPairs = [][2]uint64{{0, 0}, {1, 2}, {1 << 63, ^uint64(0)}, {^uint64(0), 0}}
var dhNames = []string{"DH_1024_BIT_MODP", "DH_2048_BIT_MODP"}
var dhIDs = []uint16{2, 14}

func infoSA(cs c07Case) *security.IKESAKey {
	return &security.IKESAKey{
		DhInfo:    dh.StrToType(dhNames[cs.DH]),
		EncrInfo:  encr.StrToType(univ.EncrName(ref.EncrKeyLens[cs.Encr])),
		IntegInfo: integ.StrToType(univ.IntegName(ref.Integs[cs.Integ])),
		PrfInfo:   prf.StrToType(univ.PRFName(ref.PRFs[cs.PRF])),
	}
}

func init() {
	engine.Register(&engine.Check{
		ID:    "C07",
		Level: "exploration",
		Rule: "all 54 configurations (3 PRF × 3 integrity × 3 AES key sizes × 2 DH groups), each through raw algorithm descriptors and through a single-choice proposal, × nonce lengths {1,2,16,31,32,33,63,64,65,128,512} × shared-secret lengths {1,20,64,65,128,256,512} × 4 SPI pairs × content patterns (thorough: every nonce and secret length 1..512): the seven keys must equal the reference slices of prf+(prf(Ni|Nr,g^ir), Ni|Nr|SPIi|SPIr) and each of the seven ready-to-use objects must be keyed with its key (probed against the reference HMAC / CBC). " +
			"Raw inputs are also handed over as adjacent windows of one caller buffer (nonce first / secret first; the buffer must come back unchanged), and one process runs NewIKESAKey for all 54 configurations one after the other in three orders. Plus a two-party run per configuration: exponent from the scripted random source, public values exchanged, both SAs must hold identical keys, protect/unprotect each other's messages, and the responder's keys must equal the reference derivation from B^a mod p. distinct_nontrivial = distinct (configuration, input) derivations whose seven keys were all compared",
		Assumptions: []string{"HMAC key handling, prf+ iteration, slice order and SPI encoding are checked against an independent implementation; the compression functions and the AES block are shared primitives"},
		Run:         runC07,
		Replay: func(c *engine.Ctx, raw json.RawMessage) {
			var cs c07Case
			unmarshalCase(raw, &cs)
			c07Prev = nil
			if cs.K == "prfplus" {
				c07PrfPlus(c, cs.PRF, cs.SecLen, cs.NonceLen)
				return
			}
			if cs.K == "derive2" && cs.Then != nil {
				first := cs
				first.K, first.Then = "derive", nil
				evalC07(c, first)
				evalC07(c, *cs.Then)
			} else if cs.K == "twoparty" {
				evalC07TwoParty(c, cs)
			} else {
				evalC07(c, cs)
			}
		},
	})
}

// c07PrfPlus: the exported prf+ helper itself, for every stream length up to 1100 octets (far beyond the lengths
// the key schedules ask for), key lengths around the HMAC block size and seed lengths 0..3 blocks; each call is made
// twice on the same keyed hash object (the object is handed in by the caller and must be reusable).
func c07PrfPlus(c *engine.Ctx, prfIdx, keyLen, seedLen int) {
	p := ref.PRFs[prfIdx]
	key, seed := univ.Pat(keyLen, keyLen+prfIdx), univ.Pat(seedLen, seedLen+3)
	h := prf.StrToType(univ.PRFName(p)).Init(append([]byte(nil), key...))
	maxN := 1100
	if 255*p.KeyLen < maxN {
		maxN = 255 * p.KeyLen
	}
	want := ref.PRFPlus(p, key, seed, maxN)
	for n := 0; n <= maxN; n++ {
		c.Evals++
		for round := 0; round < 2; round++ {
			var got []byte
			seedArg := append(make([]byte, 0, seedLen+8), seed...) // spare capacity behind the caller's seed
			tail := seedArg[seedLen : seedLen+8]
			if pi := engine.Catch(func() { got = lib.PrfPlus(h, seedArg, n) }); pi != nil {
				c.Violate(pi.Sig(), fmt.Sprintf("lib.PrfPlus(%s, %d-octet seed, %d) panics: %s", p.Digest, seedLen, n, pi.Value), c07Case{K: "prfplus", PRF: prfIdx, NonceLen: seedLen, SecLen: keyLen, Pat: n})
				return
			}
			if !bytes.Equal(got, want[:n]) || !bytes.Equal(seedArg, seed) || !bytes.Equal(tail, make([]byte, 8)) {
				c.Violate("prfplus/"+map[int]string{0: "first-call", 1: "second-call-on-same-object"}[round], fmt.Sprintf("lib.PrfPlus(%s, key %d octets, seed %d octets, %d) differs from RFC 7296 2.13 prf+ (or wrote into the caller's seed buffer)", p.Digest, keyLen, seedLen, n),
					c07Case{K: "prfplus", PRF: prfIdx, NonceLen: seedLen, SecLen: keyLen, Pat: n})
				return
			}
		}
	}
	c.DistinctS(fmt.Sprint("prfplus", prfIdx, keyLen, seedLen))
}

func runC07(c *engine.Ctx) {
	for p := 0; p < 3; p++ {
		for _, kl := range []int{1, 16, 20, 32, 63, 64, 65, 100} {
			for _, sl := range []int{0, 1, 55, 56, 64, 119, 120, 200} {
				if c.Mine() {
					c07PrfPlus(c, p, kl, sl)
				}
			}
		}
	}
	// one process negotiates every suite, one after the other (a responder serving many peers): every related
	// pair of configurations (equal in three transform ids, different in the fourth or only in the AES key size)
	// follows each other in one of the three orders
	if c.Mine() {
		var seq []c07Case
		for p := 0; p < 3; p++ {
			for i := 0; i < 3; i++ {
				for e := 0; e < 3; e++ {
					for d := 0; d < 2; d++ {
						seq = append(seq, c07Case{K: "derive", PRF: p, Integ: i, Encr: e, DH: d, Via: "proposal", NonceLen: 32, SecLen: 128, SPI: 1, Pat: 3})
					}
				}
			}
		}
		for order := 0; order < 3; order++ {
			for k := range seq {
				cs := seq[k]
				switch order {
				case 1:
					cs = seq[len(seq)-1-k]
				case 2: // PRF fastest
					cs = seq[(k%3)*18+k/3]
				}
				evalC07(c, cs)
			}
		}
	}
	nonceLens := []int{1, 2, 16, 31, 32, 33, 63, 64, 65, 128, 512}
	secLens := []int{1, 20, 64, 65, 128, 256, 512}
	for p := 0; p < 3; p++ {
		for i := 0; i < 3; i++ {
			for e := 0; e < 3; e++ {
				for d := 0; d < 2; d++ {
					if !c.Mine() {
						continue
					}
					base := c07Case{K: "derive", PRF: p, Integ: i, Encr: e, DH: d}
					for _, via := range []string{"raw", "proposal"} {
						for _, nl := range nonceLens {
							for _, sl := range secLens {
								for sp := range spiPairs {
									for _, pat := range []int{2, 3 + int(c.Seed%7)} {
										cs := base
										cs.Via, cs.NonceLen, cs.SecLen, cs.SPI, cs.Pat = via, nl, sl, sp, pat
										if via == "proposal" && !(sl == 128 || sl == 256) {
											continue // through NewIKESAKey the secret is a DH output (fixed length)
										}
										evalC07(c, cs)
										if via == "raw" && pat != 2 {
											cs.Arena = 1 + (nl+sl+sp)%2
											evalC07(c, cs)
										}
									}
								}
							}
						}
					}
					if c.Thorough() {
						for n := 1; n <= 512; n++ {
							cs := base
							cs.Via, cs.NonceLen, cs.SecLen, cs.SPI, cs.Pat = "raw", n, 64, n%4, 3
							evalC07(c, cs)
							cs.NonceLen, cs.SecLen = 48, n
							evalC07(c, cs)
						}
					}
					tp := base
					tp.K, tp.NonceLen, tp.SPI, tp.Pat = "twoparty", 64, 1, 2
					lz := tp
					lz.LZ = true
					evalC07TwoParty(c, lz)
					evalC07TwoParty(c, tp)
				}
			}
		}
	}
}

func probeHash(h hash.Hash, msg []byte) []byte {
	h.Reset()
	h.Write(msg)
	return h.Sum(nil)
}

// checkSA compares a library SA against reference keys; returns a signature suffix or "".
func checkSA(sa *security.IKESAKey, want ref.IKEKeys, p ref.PRFAlg, ig ref.IntegAlg) (string, string) {
	pairs := []struct {
		n    string
		g, w []byte
	}{{"SK_d", sa.SK_d, want.SKd}, {"SK_ai", sa.SK_ai, want.SKai}, {"SK_ar", sa.SK_ar, want.SKar}, {"SK_ei", sa.SK_ei, want.SKei},
		{"SK_er", sa.SK_er, want.SKer}, {"SK_pi", sa.SK_pi, want.SKpi}, {"SK_pr", sa.SK_pr, want.SKpr}}
	for _, x := range pairs {
		if !bytes.Equal(x.g, x.w) {
			return "key/" + x.n, fmt.Sprintf("%s = %x, RFC 7296 2.14 gives %x", x.n, x.g, x.w)
		}
	}
	probe := []byte("probe message for keyed objects")
	hs := []struct {
		n   string
		h   hash.Hash
		dg  string
		key []byte
	}{{"Prf_d", sa.Prf_d, p.Digest, want.SKd}, {"Prf_i", sa.Prf_i, p.Digest, want.SKpi}, {"Prf_r", sa.Prf_r, p.Digest, want.SKpr},
		{"Integ_i", sa.Integ_i, ig.Digest, want.SKai}, {"Integ_r", sa.Integ_r, ig.Digest, want.SKar}}
	for _, x := range hs {
		if x.h == nil {
			return "object/" + x.n + "/nil", x.n + " is nil"
		}
		if g, w := probeHash(x.h, probe), ref.HMAC(x.dg, x.key, probe); !bytes.Equal(g, w) {
			return "object/" + x.n, fmt.Sprintf("%s is not HMAC-%s keyed with its key: %x vs %x", x.n, x.dg, g, w)
		}
	}
	cs := []struct {
		n   string
		c   interface{ Encrypt([]byte) ([]byte, error) }
		key []byte
	}{{"Encr_i", sa.Encr_i, want.SKei}, {"Encr_r", sa.Encr_r, want.SKer}}
	for _, x := range cs {
		if x.c == nil {
			return "object/" + x.n + "/nil", x.n + " is nil"
		}
		ct, err := x.c.Encrypt(append([]byte(nil), probe...))
		if err != nil || len(ct) < 32 || (len(ct)-16)%16 != 0 {
			return "object/" + x.n, fmt.Sprintf("%s.Encrypt: %v (%d octets)", x.n, err, len(ct))
		}
		pt := ref.CBCDecrypt(x.key, ct[:16], ct[16:])
		if !bytes.HasPrefix(pt, probe) {
			return "object/" + x.n, x.n + " does not encrypt under its key"
		}
	}
	return "", ""
}

func c07Inputs(cs c07Case) (nonce, secret []byte, si, sr uint64) {
	nonce = univ.Pat(cs.NonceLen, cs.Pat*7+cs.NonceLen)
	secret = univ.Pat(cs.SecLen, cs.Pat*11+cs.SecLen)
	if cs.Pat == 2 {
		nonce = univ.Fill(cs.NonceLen, 0xff)
		secret = univ.Fill(cs.SecLen, 0x00)
		if len(secret) > 0 {
			secret[len(secret)-1] = 1
		}
	}
	return nonce, secret, spiPairs[cs.SPI][0], spiPairs[cs.SPI][1]
}

func evalC07(c *engine.Ctx, cs c07Case) {
	c.Evals++
	p, ig, el := ref.PRFs[cs.PRF], ref.Integs[cs.Integ], ref.EncrKeyLens[cs.Encr]
	nonce, secret, si, sr := c07Inputs(cs)
	var sa *security.IKESAKey
	var err error
	if cs.Via == "raw" {
		sa = infoSA(cs)
		if sa.DhInfo == nil || sa.EncrInfo == nil || sa.IntegInfo == nil || sa.PrfInfo == nil {
			c.Violate("registry-missing-algorithm", fmt.Sprintf("%+v", cs), cs)
			return
		}
		nArg, sArg := nonce, secret
		var arena, arena0 []byte
		if cs.Arena != 0 {
			// the caller keeps Ni|Nr and g^ir next to each other in one buffer (as they arrive in one datagram) and
			// hands over windows of it: the first window's spare capacity reaches over the second
			if cs.Arena == 1 {
				arena = append(append(append([]byte(nil), nonce...), secret...), univ.Fill(24, 0xaa)...)
				nArg, sArg = arena[:len(nonce)], arena[len(nonce):len(nonce)+len(secret)]
			} else {
				arena = append(append(append([]byte(nil), secret...), nonce...), univ.Fill(24, 0xaa)...)
				sArg, nArg = arena[:len(secret)], arena[len(secret):len(secret)+len(nonce)]
			}
			arena0 = append([]byte(nil), arena...)
		}
		pi := engine.Catch(func() { err = sa.GenerateKeyForIKESA(nArg, sArg, si, sr) })
		if pi != nil {
			c.Violate(pi.Sig(), "GenerateKeyForIKESA panics: "+pi.Value, cs)
			return
		}
		if arena != nil && !bytes.Equal(arena, arena0) {
			c.Violate("caller-memory-modified", fmt.Sprintf("GenerateKeyForIKESA wrote into the caller's buffer that holds nonce and shared secret as adjacent windows (layout %d): %x… became %x…", cs.Arena, trunc(arena0, 40), trunc(arena, 40)), cs)
			return
		}
	} else {
		// through a single-choice proposal: the shared secret is then computed inside; the peer value is
		// chosen as g^1 = 2 so that the secret equals the local public value, which the reference recomputes.
		prop, perr := infoSA(cs).ToProposal()
		if perr != nil {
			c.Violate("toproposal-error", errStr(perr), cs)
			return
		}
		seam := engine.NewSeam(nil, nil)
		seam.Stream = uint64(cs.Pat)
		restore := engine.Install(seam)
		var pub []byte
		pi := engine.Catch(func() { sa, pub, err = security.NewIKESAKey(prop, []byte{2}, nonce, si, sr) })
		restore()
		if pi != nil {
			c.Violate(pi.Sig(), "NewIKESAKey panics: "+pi.Value, cs)
			return
		}
		if err == nil {
			secret = pub // peer value 2 = g: shared = 2^b = local public value
		}
	}
	if err != nil {
		c.Violate("derive-error/"+cs.Via, fmt.Sprintf("%+v: %s", cs, errStr(err)), cs)
		return
	}
	want := ref.DeriveIKE(p, ig, el, nonce, secret, si, sr)
	if cs.Via == "raw" && (cs.NonceLen+cs.SecLen+cs.SPI)%3 == 0 {
		// the same object is keyed again with other inputs (retry after COOKIE / INVALID_KE_PAYLOAD): keys and
		// ready-to-use objects must all follow the second derivation
		nonce2, secret2 := univ.Pat(cs.NonceLen+3, 900+cs.NonceLen), univ.Pat(cs.SecLen+1, 901+cs.SecLen)
		var err2 error
		if pi := engine.Catch(func() { err2 = sa.GenerateKeyForIKESA(nonce2, secret2, sr+5, si+7) }); pi != nil || err2 != nil {
			c.Violate("rederive-error", fmt.Sprintf("second GenerateKeyForIKESA on the same object: %v %v", pi, err2), cs)
			return
		}
		want2 := ref.DeriveIKE(p, ig, el, nonce2, secret2, sr+5, si+7)
		if sig, what := checkSA(sa, want2, p, ig); sig != "" {
			c.Violate("rederive/"+sig, fmt.Sprintf("after a second derivation on the same IKESAKey object: %s", what), cs)
			return
		}
		c.Count("rederivations_checked", 1)
		// a refused call (no shared secret / no nonces) on the established object leaves keys and objects as they are
		for _, bad := range [][2][]byte{{nil, secret2}, {nonce2, nil}} {
			var err3 error
			if pi := engine.Catch(func() { err3 = sa.GenerateKeyForIKESA(bad[0], bad[1], 1, 2) }); pi != nil {
				c.Violate(pi.Sig(), "refused GenerateKeyForIKESA panics: "+pi.Value, cs)
				return
			}
			if err3 == nil {
				break // accepted: nothing to say about this input
			}
			if sig, what := checkSA(sa, want2, p, ig); sig != "" {
				c.Violate("refused-rederive-alters-sa/"+sig, fmt.Sprintf("after a refused GenerateKeyForIKESA (error %q) on an established IKESAKey object: %s", errStr(err3), what), cs)
				return
			}
		}
		// the object is keyed a third time after the negotiated suite changed (other PRF / integrity / key size:
		// other key lengths in the same fields)
		cs3 := cs
		cs3.PRF, cs3.Integ, cs3.Encr = (cs.PRF+1)%3, (cs.Integ+2)%3, (cs.Encr+1+cs.NonceLen%2)%3
		other := infoSA(cs3)
		sa.PrfInfo, sa.IntegInfo, sa.EncrInfo = other.PrfInfo, other.IntegInfo, other.EncrInfo
		p3, ig3, el3 := ref.PRFs[cs3.PRF], ref.Integs[cs3.Integ], ref.EncrKeyLens[cs3.Encr]
		var err4 error
		if pi := engine.Catch(func() { err4 = sa.GenerateKeyForIKESA(nonce, secret, si, sr) }); pi != nil || err4 != nil {
			c.Violate("rederive-error/other-suite", fmt.Sprintf("GenerateKeyForIKESA on an object keyed before under another suite: %v %v", pi, err4), cs)
			return
		}
		if sig, what := checkSA(sa, ref.DeriveIKE(p3, ig3, el3, nonce, secret, si, sr), p3, ig3); sig != "" {
			c.Violate("rederive/other-suite/"+sig, fmt.Sprintf("object keyed under prf=%s integ=%s aes=%d, then under prf=%s integ=%s aes=%d: %s", p.Digest, ig.Digest, el*8, p3.Digest, ig3.Digest, el3*8, what), cs)
			return
		}
		// continue with a fresh object for the remaining clauses
		sa = infoSA(cs)
		if err := sa.GenerateKeyForIKESA(nonce, secret, si, sr); err != nil {
			c.Violate("derive-error/raw", errStr(err), cs)
			return
		}
	}
	if sig, what := checkSA(sa, want, p, ig); sig != "" {
		c.Violate(sig+"/"+cs.Via, fmt.Sprintf("prf=%s integ=%s/%d aes=%d dh=%d nonce=%d secret=%d spi=%d: %s", p.Digest, ig.Digest, ig.OutLen*8, el*8, dhIDs[cs.DH], cs.NonceLen, len(secret), cs.SPI, what), cs)
		return
	}
	c.Distinct(engine.Hash64(want.SKd, want.SKai, want.SKei, want.SKpr))
	c.Sample(cs.Via, map[string]interface{}{"case": cs, "SK_d": engine.Hex(want.SKd)})
	// an SA derived earlier must still hold its keys after this derivation (key material that aliases
	// a buffer the library reuses is invisible to an immediate comparison)
	if pv := c07Prev; pv != nil {
		if sig, what := checkSA(pv.sa, pv.want, pv.p, pv.ig); sig != "" {
			c.Violate("earlier-sa-changed-by-later-derivation/"+sig, fmt.Sprintf("the SA derived for %+v no longer holds its keys after the derivation for %+v: %s", pv.cs, cs, what), c07Case{K: "derive2", PRF: pv.cs.PRF, Integ: pv.cs.Integ, Encr: pv.cs.Encr, DH: pv.cs.DH,
				NonceLen: pv.cs.NonceLen, SecLen: pv.cs.SecLen, SPI: pv.cs.SPI, Pat: pv.cs.Pat, Via: pv.cs.Via, Then: &cs})
			c07Prev = nil
			return
		}
	}
	c07Prev = &c07Held{cs: cs, sa: sa, want: want, p: p, ig: ig}
}

type c07Held struct {
	cs   c07Case
	sa   *security.IKESAKey
	want ref.IKEKeys
	p    ref.PRFAlg
	ig   ref.IntegAlg
}

var c07Prev *c07Held

func evalC07TwoParty(c *engine.Ctx, cs c07Case) {
	c.Evals++
	p, ig, el := ref.PRFs[cs.PRF], ref.Integs[cs.Integ], ref.EncrKeyLens[cs.Encr]
	nonce, _, si, sr := c07Inputs(cs)
	ini := infoSA(cs)
	prop, err := ini.ToProposal()
	if err != nil {
		c.Violate("toproposal-error", errStr(err), cs)
		return
	}
	// the proposal crosses the wire
	var pc message.IKEPayloadContainer
	saP := pc.BuildSecurityAssociation()
	prop.ProposalNumber = 1
	saP.Proposals = append(saP.Proposals, prop)
	wire, err := pc.Encode()
	if err != nil {
		c.Violate("twoparty/proposal-encode", errStr(err), cs)
		return
	}
	var rc message.IKEPayloadContainer
	if err := rc.Decode(uint8(message.TypeSA), wire); err != nil || len(rc) != 1 {
		c.Violate("twoparty/proposal-decode", fmt.Sprint(err), cs)
		return
	}
	rprop := rc[0].(*message.SecurityAssociation).Proposals[0]

	seam := engine.NewSeam(nil, nil)
	seam.Stream = uint64(100 + cs.PRF*18 + cs.Integ*6 + cs.Encr*2 + cs.DH)
	if cs.LZ {
		// read 0 is the initiator's draw, read 1 the responder's: the latter is a chosen exponent
		seam.Script = [][]byte{nil, c09LeadingZeroExponent(cs.DH).FillBytes(make([]byte, 256))}
	}
	restore := engine.Install(seam)
	defer restore()
	var a *big.Int
	var A, B, shared, shared2 []byte
	var peerB *big.Int
	var resp *security.IKESAKey
	pi := engine.Catch(func() {
		a, err = security.GenerateRandomNumber()
		if err != nil {
			return
		}
		A = ini.DhInfo.GetPublicValue(a)
		resp, B, err = security.NewIKESAKey(rprop, A, nonce, si, sr)
		if err != nil {
			return
		}
		// the initiator parses the peer's public value once and keeps it (a re-processed response, a second key
		// object and the reference below all use the same *big.Int)
		peerB = new(big.Int).SetBytes(B)
		shared = ini.DhInfo.GetSharedKey(a, peerB)
		shared2 = ini.DhInfo.GetSharedKey(a, peerB)
		err = ini.GenerateKeyForIKESA(nonce, shared, si, sr)
	})
	if pi != nil {
		c.Violate(pi.Sig(), "two-party run panics: "+pi.Value, cs)
		return
	}
	if err != nil {
		c.Violate("twoparty/error", errStr(err), cs)
		return
	}
	if !bytes.Equal(peerB.Bytes(), new(big.Int).SetBytes(B).Bytes()) || !bytes.Equal(shared, shared2) {
		c.Violate("twoparty/peer-value-not-reusable", fmt.Sprintf("after GetSharedKey the caller's parsed peer value is %s (was %s); the same call repeated gives %s, first %s",
			engine.Hex(trunc(peerB.Bytes(), 12)), engine.Hex(trunc(B, 12)), engine.Hex(trunc(shared2, 12)), engine.Hex(trunc(shared, 12))), cs)
		return
	}
	g := ref.GroupByID(dhIDs[cs.DH])
	refShared := g.Shared(a, peerB)
	want := ref.DeriveIKE(p, ig, el, nonce, refShared, si, sr)
	if sig, what := checkSA(resp, want, p, ig); sig != "" {
		c.Violate("twoparty/responder/"+sig, what, cs)
		return
	}
	if sig, what := checkSA(ini, want, p, ig); sig != "" {
		c.Violate("twoparty/initiator/"+sig, what, cs)
		return
	}
	// mutually usable
	for _, dir := range []bool{true, false} {
		m := ref.Msg{H: univ.BaseHdr, P: []ref.Payload{{T: ref.PNonce, Data: univ.Pat(20, 5)}, {T: ref.PNotify, B: 1, NType: 7}}}
		lm, _ := univ.Build(m)
		snd, rcv := ini, resp
		if !dir {
			snd, rcv = resp, ini
		}
		var b []byte
		var got *message.IKEMessage
		pi := engine.Catch(func() {
			b, err = ike.EncodeEncrypt(lm, snd, roleOf(dir))
			if err == nil {
				got, err = ike.DecodeDecrypt(b, nil, rcv, roleOf(!dir))
			}
		})
		if pi != nil || err != nil {
			c.Violate("twoparty/not-mutually-usable", fmt.Sprintf("initiator sends=%v: %v %v", dir, pi, err), cs)
			return
		}
		if univ.Project(got).Canon() != m.Canon() {
			c.Violate("twoparty/not-mutually-usable", "payloads differ", cs)
			return
		}
	}
	c.Count("two_party_runs", 1)
	c.Distinct(engine.Hash64(want.SKd, B))
	c.Sample("twoparty", map[string]interface{}{"case": cs, "A": engine.Hex(trunc(A, 16)), "B": engine.Hex(trunc(B, 16)), "SK_d": engine.Hex(want.SKd)})
}
