package checks

import (
	"encoding/json"
	"fmt"
	ike "github.com/free5gc/ike"
	"github.com/free5gc/ike/message"

	"verif/mc/engine"
	"verif/mc/ref"
	"verif/mc/univ"
)

// C05 — wire format against the independent RFC 7296 codec, both directions.

type c05Case struct {
	Dir     string  `json:"dir"` // fwd | rev
	Name    string  `json:"name"`
	M       ref.Msg `json:"m"`
	L       ref.Lib `json:"lib"`
	LN      string  `json:"libname"`
	Shape   []int   `json:"list_shape,omitempty"` // fwd-shared: the payload list as indices into M.P (equal indices: one object)
	Suite   int     `json:"suite,omitempty"`      // rev-sk: suite of the independent peer that protects the datagram
	SenderI bool    `json:"sender_i,omitempty"`   // rev-sk
	SKFlags int     `json:"sk_flags,omitempty"`   // rev-sk: flags octet of the SK generic header (critical / reserved bits)
}

type libVar struct {
	name string
	l    ref.Lib
}

var fieldNames = map[uint32]string{ref.LPropRes: "proposal.reserved", ref.LTransRes1: "transform.reserved1", ref.LTransRes2: "transform.reserved2",
	ref.LKERes: "ke.reserved", ref.LIDRes: "id.reserved", ref.LAuthRes: "auth.reserved", ref.LTSRes: "ts.reserved", ref.LCPRes: "cp.reserved", ref.LCPAttrR: "cp.attr.reservedBit"}

// liberties lists every single liberty applicable to m, and all of them together.
func liberties(m ref.Msg, full bool) []libVar {
	v := []libVar{{"none", ref.Lib{}}}
	n := len(m.P)
	all := ref.Lib{Fields: ref.LAllFields}
	if n > 0 {
		all.Critical = 1<<uint(n) - 1
		all.PayRes = 1<<uint(n) - 1
	}
	if full {
		for f := uint32(1); f <= ref.LCPAttrR; f <<= 1 {
			v = append(v, libVar{fieldNames[f], ref.Lib{Fields: f}})
		}
		for i := 0; i < n; i++ {
			v = append(v, libVar{fmt.Sprintf("critical@%d", i), ref.Lib{Critical: 1 << uint(i)}})
			v = append(v, libVar{fmt.Sprintf("generic.reserved@%d", i), ref.Lib{PayRes: 1 << uint(i)}})
		}
	}
	v = append(v, libVar{"all", all})
	return v
}

// permutations of the transform lists: all permutations for proposals with <= 4
// transforms, reversal and type-interleaving beyond.
func transformOrders(m ref.Msg) []ref.Msg {
	var out []ref.Msg
	for pi, p := range m.P {
		if p.T != ref.PSA {
			continue
		}
		for qi, pr := range p.SA {
			var orders [][]ref.Transform
			if len(pr.Tr) <= 4 {
				permute(pr.Tr, func(x []ref.Transform) { orders = append(orders, append([]ref.Transform(nil), x...)) })
				if len(orders) > 0 {
					orders = orders[1:] // identity is the base case
				}
			} else {
				rev := make([]ref.Transform, len(pr.Tr))
				for i := range pr.Tr {
					rev[len(pr.Tr)-1-i] = pr.Tr[i]
				}
				var il []ref.Transform
				for s := 0; s < 3; s++ {
					for i := s; i < len(pr.Tr); i += 3 {
						il = append(il, pr.Tr[i])
					}
				}
				orders = [][]ref.Transform{rev, il}
			}
			for _, o := range orders {
				cp := ref.Msg{H: m.H, P: append([]ref.Payload(nil), m.P...)}
				sa := append([]ref.Proposal(nil), p.SA...)
				npr := pr
				npr.Tr = o
				sa[qi] = npr
				np := p
				np.SA = sa
				cp.P[pi] = np
				out = append(out, cp)
			}
		}
	}
	return out
}

func permute(a []ref.Transform, f func([]ref.Transform)) {
	x := append([]ref.Transform(nil), a...)
	var rec func(k int)
	rec = func(k int) {
		if k == len(x) {
			f(x)
			return
		}
		for i := k; i < len(x); i++ {
			x[k], x[i] = x[i], x[k]
			rec(k + 1)
			x[k], x[i] = x[i], x[k]
		}
	}
	rec(0)
}

func init() {
	engine.Register(&engine.Check{
		ID:    "C05",
		Level: "model_checking",
		Rule: "same message universe as C03 (builder-op sequences up to the depth bound + all field sweeps). Forward: the library's encoding must be accepted by the strict reference parser (lengths = extents, chain, markers, zero reserved/critical) and parse to the descriptor. " +
			"Each message object is then used again (the object that was encoded, and the object decoded from its datagram: payload list emptied, payload list cut to its first payload) and must again encode to a well-formed datagram carrying exactly the payloads it holds. Reverse: the reference liberal encoder emits every single sender liberty (each reserved field all-ones, critical flag and reserved generic bits on each payload position, all together, every permutation of <= 4 transforms, reversal/interleaving beyond) and the library must decode to the descriptor; the messages of depth <= 1 additionally as an independent peer sends them inside an IKE SA (protected by the reference SK implementation under a rotating suite and role, every inner liberty, SK generic header flags 0x00 / 0x80 / 0x7f / 0xff) through DecodeDecrypt. distinct_nontrivial = distinct datagrams with at least one payload that were cross-checked",
		Assumptions: []string{"transform order is compared within each transform type (the library's data model has no cross-type order)",
			"datagrams with more than one attribute per transform are outside the library's data model and not generated"},
		Run: func(c *engine.Ctx) {
			univ.Messages(depthFor(c), func(name string, m ref.Msg) {
				if !c.Mine() {
					return
				}
				evalC05(c, c05Case{Dir: "fwd", Name: name, M: m})
				for _, lv := range liberties(m, true) {
					evalC05(c, c05Case{Dir: "rev", Name: name, M: m, L: lv.l, LN: lv.name})
				}
				for _, pm := range transformOrders(m) {
					evalC05(c, c05Case{Dir: "rev", Name: name, M: pm, LN: "transform-order"})
				}
				// the same datagrams as an independent peer sends them inside an IKE SA: protected by the reference
				// SK implementation, liberties on the inner payloads and on the SK generic header itself (critical flag,
				// reserved bits); every octet up to the checksum is covered as received
				if len(m.P) <= 1 {
					si := int(engine.Hash64([]byte(name)) % 9)
					for k, lv := range liberties(m, true) {
						for f, fl := range []int{0, 0x80, 0x7f, 0xff} {
							evalC05(c, c05Case{Dir: "rev-sk", Name: name, M: m, L: lv.l, LN: lv.name, Suite: (si + k) % 9, SenderI: (k+f)%2 == 0, SKFlags: fl})
						}
					}
				}
			})
			// the caller's list may name one payload object more than once (a notification sent twice, one vendor ID
			// at both ends): the chain is laid out by position, not by object
			al := univ.Alphabet()
			for i, a := range al {
				if !c.Mine() {
					continue
				}
				for _, shape := range [][]int{{0, 1, 0}, {0, 0}, {1, 0, 1, 0}, {0, 1, 1}} {
					q := al[(i*7+3)%len(al)]
					evalC05(c, c05Case{Dir: "fwd-shared", Name: a.Name + " / " + q.Name, M: ref.Msg{H: univ.BaseHdr, P: []ref.Payload{a.P, q.P}}, Shape: shape})
				}
			}
			// shapes that are legal on the wire but that the library's own encoder refuses to produce (reverse
			// direction only): a TLV transform attribute with an empty value, for every transform type, alone and
			// next to other transforms
			if c.Mine() {
				for t := uint8(1); t <= 5; t++ {
					for _, at := range []uint16{14, 1, 0x7fff} {
						empty := ref.Transform{Type: t, ID: uint16(2 + t), HasAttr: true, AType: at, AVar: []byte{}}
						for i, trs := range [][]ref.Transform{{empty}, {{Type: t, ID: 1}, empty}, {empty, {Type: t, ID: 1}}, {{Type: 1, ID: 12, HasAttr: true, TV: true, AType: 14, AValue: 128}, empty, {Type: 5, ID: 0}}} {
							m := ref.Msg{H: univ.BaseHdr, P: []ref.Payload{{T: ref.PSA, SA: []ref.Proposal{{Num: 1, Proto: 3, SPI: univ.Pat(4, 1), Tr: trs}}}}}
							evalC05(c, c05Case{Dir: "rev", Name: fmt.Sprintf("SA.empty-tlv=%d/%d/%d", t, at, i), M: m, LN: "none"})
						}
					}
				}
			}
			univ.Sweeps(c.Thorough(), func(name string, m ref.Msg, fits bool) {
				if !fits || !c.Mine() {
					return
				}
				evalC05(c, c05Case{Dir: "fwd", Name: name, M: m})
				for _, lv := range liberties(m, false) {
					evalC05(c, c05Case{Dir: "rev", Name: name, M: m, L: lv.l, LN: lv.name})
				}
			})
		},
		Replay: func(c *engine.Ctx, raw json.RawMessage) {
			var cs c05Case
			unmarshalCase(raw, &cs)
			evalC05(c, cs)
		},
	})
}

func evalC05(c *engine.Ctx, cs c05Case) {
	c.Evals++
	c.Transitions++
	m := cs.M
	if cs.Dir == "fwd-shared" {
		// M.P holds the distinct payloads, Shape the list as indices into it: equal indices are the same object
		objs, err := univ.BuildPayloads(m.P)
		if err != nil || len(objs) != len(m.P) {
			return
		}
		var list message.IKEPayloadContainer
		var want []ref.Payload
		for _, ix := range cs.Shape {
			list = append(list, objs[ix])
			want = append(want, m.P[ix])
		}
		lm := message.NewMessage(m.H.ISPI, m.H.RSPI, m.H.Exch, m.H.Flags&0x20 != 0, m.H.Flags&0x08 != 0, m.H.MsgID, list)
		var b []byte
		if pi := engine.Catch(func() { b, err = lm.Encode() }); pi != nil {
			c.Violate(pi.Sig(), "Encode of a list naming one payload object twice panics: "+pi.Value, cs)
			return
		}
		if err != nil {
			c.Count("shared_object_lists_refused", 1)
			return
		}
		got, _, perr := ref.Parse(b, true)
		if perr != nil {
			c.Violate("fwd/malformed/"+classify(perr)+"/shared-object", fmt.Sprintf("%s, list shape %v: library output rejected by the strict RFC parser: %v; wire=%s", cs.Name, cs.Shape, perr, engine.Hex(trunc(b, 120))), cs)
			return
		}
		if ref.CanonPayloads(got.P) != ref.CanonPayloads(want) {
			c.Violate("fwd/fields/shared-object/"+ref.FirstDiff(want, got.P), fmt.Sprintf("%s, list shape %v: reference parser reads %s", cs.Name, cs.Shape, trs(ref.CanonPayloads(got.P))), cs)
			return
		}
		c.Distinct(engine.Hash64(b))
		return
	}
	if cs.Dir == "fwd" {
		_, b, stage, err, pi := encodeLib(m)
		if pi != nil {
			c.Violate(pi.Sig(), fmt.Sprintf("%s of %s panics: %s", stage, cs.Name, pi.Value), cs)
			return
		}
		if err != nil {
			c.Violate("fwd/encode-error/"+kinds(m.P)+"/"+dim(cs.Name), fmt.Sprintf("%s: %s: %s", cs.Name, stage, errStr(err)), cs)
			return
		}
		c.Traces++
		got, _, perr := ref.Parse(b, true)
		if perr != nil {
			c.Violate("fwd/malformed/"+classify(perr), fmt.Sprintf("%s: library output rejected by the strict RFC parser: %v; wire=%s", cs.Name, perr, engine.Hex(trunc(b, 120))), cs)
			return
		}
		if got.Canon() != m.Canon() {
			d := "header"
			if got.H == m.H {
				d = ref.FirstDiff(m.P, got.P)
			}
			c.Violate("fwd/fields/"+d, fmt.Sprintf("%s: reference parser reads %s, encoded was %s", cs.Name, trs(got.Canon()), trs(m.Canon())), cs)
			return
		}
		if len(m.P) > 0 {
			c.Distinct(engine.Hash64(b))
		}
		if c.State(engine.Hash64(b)) {
			c.States++
		}
		// the message object is used again with another payload list (the request object answered with an empty
		// INFORMATIONAL, a decoded request turned into the reply): what it encodes to is again a well-formed
		// datagram carrying exactly the payloads it holds now
		if len(m.P) > 0 {
			lm, _, _, _, _ := encodeLib(m)
			dm, _, _ := decodeLib(b)
			for vi, obj := range []*message.IKEMessage{lm, dm} {
				if obj == nil {
					continue
				}
				for _, keep := range []int{1, 0} {
					if keep >= len(obj.Payloads) && keep > 0 {
						continue
					}
					var b2 []byte
					var err2 error
					if keep == 0 {
						obj.Payloads.Reset()
					} else {
						obj.Payloads = obj.Payloads[:keep]
					}
					if pi := engine.Catch(func() { b2, err2 = obj.Encode() }); pi != nil {
						c.Violate(pi.Sig(), "Encode of a message object used before panics: "+pi.Value, cs)
						return
					}
					if err2 != nil {
						continue
					}
					got2, _, perr := ref.Parse(b2, true)
					want2 := ref.Msg{H: m.H, P: m.P[:keep]}
					how := []string{"encoded before", "decoded from a datagram"}[vi]
					if perr != nil {
						c.Violate("fwd/malformed/"+classify(perr)+"/reused-message-object", fmt.Sprintf("%s: message object %s, payload list cut to %d, encoded again: rejected by the strict RFC parser: %v; wire=%s", cs.Name, how, keep, perr, engine.Hex(trunc(b2, 120))), cs)
						return
					}
					if got2.Canon() != want2.Canon() {
						c.Violate("fwd/fields/reused-message-object", fmt.Sprintf("%s: message object %s, payload list cut to %d, encoded again: reference parser reads %s", cs.Name, how, keep, trs(got2.Canon())), cs)
						return
					}
				}
			}
			c.Count("reused_message_objects", 1)
		}
		return
	}
	if cs.Dir == "rev-sk" {
		evalC05SK(c, cs)
		return
	}
	b, err := ref.Encode(m, cs.L)
	if err != nil {
		c.Count("reference_encoder_refused", 1)
		return
	}
	c.Traces++
	lm, derr, pi := decodeLib(b)
	if pi != nil {
		c.Violate(pi.Sig(), fmt.Sprintf("Decode of reference encoding (%s, liberty %s) panics: %s", cs.Name, cs.LN, pi.Value), cs)
		return
	}
	lname := cs.LN
	if len(lname) > 9 && lname[:9] == "critical@" {
		lname = "critical"
	}
	if len(lname) > 17 && lname[:17] == "generic.reserved@" {
		lname = "generic.reserved"
	}
	if derr != nil {
		c.Violate("rev/rejected/"+lname+"/"+culpritRev(m, cs.L), fmt.Sprintf("%s with liberty %s: well-formed datagram refused: %s; wire=%s", cs.Name, cs.LN, errStr(derr), engine.Hex(trunc(b, 120))), cs)
		return
	}
	got := univ.Project(lm)
	if got.Canon() != m.Canon() {
		d := "header"
		if got.H == m.H {
			d = ref.FirstDiff(m.P, got.P)
		}
		c.Violate("rev/fields/"+lname+"/"+d, fmt.Sprintf("%s with liberty %s: decoded %s, built from %s", cs.Name, cs.LN, trs(got.Canon()), trs(m.Canon())), cs)
		return
	}
	c.Sample("reverse", map[string]string{"name": cs.Name, "liberty": cs.LN, "wire": engine.Hex(trunc(b, 96))})
	if len(m.P) > 0 {
		c.Distinct(engine.Hash64(b))
	}
	if c.State(engine.Hash64(b)) {
		c.States++
	}
}

// evalC05SK: the reference peer protects m (inner liberties cs.L, SK generic header flags cs.SKFlags) and the
// library, holding the same keys in the opposite role, must decode it to the fields it was built from.
func evalC05SK(c *engine.Ctx, cs c05Case) {
	m := cs.M
	ks := univ.MakeKeySet(cs.Suite, 2, 2)
	ske, ska := ks.K.SKer, ks.K.SKar
	if cs.SenderI {
		ske, ska = ks.K.SKei, ks.K.SKai
	}
	_, inner, err := ref.EncodeChain(m.P, cs.L)
	if err != nil {
		c.Count("reference_encoder_refused", 1)
		return
	}
	padLen := (16 - (len(inner)+1)%16) % 16
	iv := univ.Pat(16, 7+cs.Suite)
	b, err := ref.Protect(ks.Suite, ske, ska, m, cs.L, iv, univ.Pat(padLen, 3))
	if err != nil {
		c.Count("reference_protect_refused", 1)
		return
	}
	if cs.SKFlags != 0 {
		b[29] = byte(cs.SKFlags)
		icvLen := ks.Suite.Integ.OutLen
		copy(b[len(b)-icvLen:], ref.HMAC(ks.Suite.Integ.Digest, ska, b[:len(b)-icvLen])[:icvLen])
	}
	sa, err := univ.NewSA(ks)
	if err != nil {
		c.Violate("sa-construction", errStr(err), cs)
		return
	}
	c.Traces++
	var got *message.IKEMessage
	pi := engine.Catch(func() { got, err = ike.DecodeDecrypt(b, nil, sa, roleOf(!cs.SenderI)) })
	if pi != nil {
		c.Violate(pi.Sig(), fmt.Sprintf("DecodeDecrypt of a reference-protected datagram (%s, liberty %s, SK flags %#x) panics: %s", cs.Name, cs.LN, cs.SKFlags, pi.Value), cs)
		return
	}
	lname := cs.LN
	if len(lname) > 9 && lname[:9] == "critical@" {
		lname = "critical"
	}
	if len(lname) > 17 && lname[:17] == "generic.reserved@" {
		lname = "generic.reserved"
	}
	fl := ""
	if cs.SKFlags != 0 {
		fl = "/sk-header-flags"
	}
	if err != nil {
		c.Violate("rev-sk/rejected/"+lname+fl, fmt.Sprintf("%s with liberty %s, SK flags %#x, %v: well-formed protected datagram refused: %s", cs.Name, cs.LN, cs.SKFlags, ks.Suite, errStr(err)), cs)
		return
	}
	g := univ.Project(got)
	if g.Canon() != m.Canon() {
		d := "header"
		if g.H == m.H {
			d = ref.FirstDiff(m.P, g.P)
		}
		c.Violate("rev-sk/fields/"+lname+fl+"/"+d, fmt.Sprintf("%s with liberty %s, SK flags %#x: decoded %s, built from %s", cs.Name, cs.LN, cs.SKFlags, trs(g.Canon()), trs(m.Canon())), cs)
		return
	}
	c.Count("reverse_protected_accepted", 1)
	if len(m.P) > 0 {
		c.Distinct(engine.Hash64(b))
	}
	if c.State(engine.Hash64(b)) {
		c.States++
	}
}

func culpritRev(m ref.Msg, l ref.Lib) string {
	for _, p := range m.P {
		x := ref.Msg{H: m.H, P: []ref.Payload{p}}
		ll := l
		if l.Critical != 0 {
			ll.Critical = 1
		}
		if l.PayRes != 0 {
			ll.PayRes = 1
		}
		b, err := ref.Encode(x, ll)
		if err != nil {
			continue
		}
		if _, de, dp := decodeLib(b); de != nil || dp != nil {
			return ref.Name(p.T)
		}
	}
	return kinds(m.P)
}

// classify maps a strict-parser error to a stable class name.
func classify(err error) string {
	s := err.Error()
	for _, k := range []string{"header length", "chain ended", "last payload names", "payload length", "critical flag", "reserved", "proposal length", "proposal 'more'",
		"transform length", "transform 'more'", "transform count", "attribute length", "SPI size", "selector", "Delete", "CP attribute", "EAP length", "EAP Success",
		"padding", "bit length", "AKA'", "attribute"} {
		if contains(s, k) {
			return k
		}
	}
	return "other"
}

func contains(s, k string) bool {
	for i := 0; i+len(k) <= len(s); i++ {
		if s[i:i+len(k)] == k {
			return true
		}
	}
	return false
}
