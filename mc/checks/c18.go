package checks

import (
	"bytes"
	"encoding/json"
	"fmt"
	"math/big"
	"os"
	"os/exec"
	"runtime"
	"sort"
	"strings"
	"sync"

	ike "github.com/free5gc/ike"
	"github.com/free5gc/ike/eap"
	"github.com/free5gc/ike/message"
	"github.com/free5gc/ike/security"
	"github.com/free5gc/ike/security/dh"
	"github.com/free5gc/ike/security/encr"
	"github.com/free5gc/ike/security/integ"

	"verif/mc/engine"
	"verif/mc/ref"
	"verif/mc/univ"
)

// C18 — independent SAs and messages can be processed concurrently without interference.

type c18Case struct {
	K     string  `json:"k,omitempty"` // "" = schedule; "footprint" = state footprint of two ops
	Progs [][]int `json:"programs"`    // per thread: op indices
	Sched []int   `json:"schedule"`    // explorer choice vector
	Bound int     `json:"bound"`
	Fine  bool    `json:"fine_grained"`                // accesses to package-level state and lock operations are scheduling points too
	Step  bool    `json:"statement_grained,omitempty"` // every statement of the library is a scheduling point (implies Fine)
}

// tctx is what one logical thread (or one free-running goroutine) works with.
type tctx struct {
	k     int    // thread index: selects thread-specific contents
	hold  func() // the caller keeps a result while other threads may run
	small bool   // fine-grained phase: ops touch each shared table a few times instead of dozens
	// setConst makes the random source serve the constant octet v to this thread (v < 0: back to this thread's
	// non-repeating stream); nil where the source is not scripted (free-running pass)
	setConst func(v int)
}

type c18Op struct {
	name string
	run  func(t *tctx) string
}

var c18Shared = func() []byte {
	m := ref.Msg{H: univ.BaseHdr, P: []ref.Payload{univ.Alphabet()[1].P, univ.Alphabet()[30].P, {T: ref.PNonce, Data: univ.Pat(24, 5)}}}
	b, _ := ref.Encode(m, ref.Lib{})
	return b
}()

func c18Msg(k int) ref.Msg {
	al := univ.Alphabet()
	h := univ.BaseHdr
	h.MsgID = uint32(100 + k)
	return ref.Msg{H: h, P: []ref.Payload{al[(k*7+1)%len(al)].P, {T: ref.PNonce, Data: univ.Pat(16+5*k, k)}, al[(k*11+20)%len(al)].P}}
}

func c18Ops() []c18Op {
	return []c18Op{
		{"encode/hold/decode", func(t *tctx) string {
			m := c18Msg(t.k)
			lm, err := univ.Build(m)
			if err != nil {
				return "build error"
			}
			b, err := lm.Encode()
			if err != nil {
				return "encode error"
			}
			t.hold()
			d := new(message.IKEMessage)
			if err := d.Decode(b); err != nil {
				return "decode error: held encoding no longer decodes"
			}
			return univ.Project(d).Canon()
		}},
		{"container-encode/hold/compare", func(t *tctx) string {
			ps, _ := univ.BuildPayloads(c18Msg(t.k + 3).P)
			b, err := ps.Encode()
			if err != nil {
				return "encode error"
			}
			want := append([]byte(nil), b...)
			t.hold()
			b2, _ := ps.Encode()
			return fmt.Sprintf("held=%v again=%v", bytes.Equal(b, want), bytes.Equal(b2, want))
		}},
		{"decode-shared-input", func(t *tctx) string {
			d := new(message.IKEMessage)
			if err := d.Decode(c18Shared); err != nil {
				return "error"
			}
			t.hold()
			return univ.Project(d).Canon()
		}},
		{"protect/hold/unprotect", func(t *tctx) string {
			ks := univ.MakeKeySet(t.k%9, 2, 3+t.k)
			sa, _ := univ.NewSA(ks)
			peer, _ := univ.NewSA(ks)
			lm, _ := univ.Build(c18Msg(t.k + 5))
			b, err := ike.EncodeEncrypt(lm, sa, message.Role_Initiator)
			if err != nil {
				return "protect error"
			}
			t.hold()
			got, err := ike.DecodeDecrypt(b, nil, peer, message.Role_Responder)
			if err != nil {
				return "unprotect error"
			}
			return univ.Project(got).Canon()
		}},
		{"derive-ike-sa/hold/recheck", func(t *tctx) string {
			cs := c07Case{PRF: t.k % 3, Integ: (t.k + 1) % 3, Encr: t.k % 3, DH: 0}
			sa := infoSA(cs)
			nonce, secret := univ.Pat(40+t.k, t.k), univ.Pat(128, 50+t.k)
			if err := sa.GenerateKeyForIKESA(nonce, secret, uint64(t.k), 9); err != nil {
				return "error"
			}
			want := ref.DeriveIKE(ref.PRFs[cs.PRF], ref.Integs[cs.Integ], ref.EncrKeyLens[cs.Encr], nonce, secret, uint64(t.k), 9)
			t.hold()
			if sig, _ := checkSA(sa, want, ref.PRFs[cs.PRF], ref.Integs[cs.Integ]); sig != "" {
				return "keys wrong after hold: " + sig
			}
			return "keys ok " + engine.Hex(sa.SK_d)
		}},
		{"child-derivation", func(t *tctx) string {
			sa, _ := univ.NewSA(univ.MakeKeySet(t.k%9, t.k%3, 3+t.k))
			ch := &security.ChildSAKey{EncrKInfo: encr.StrToKType(univ.EncrName(ref.EncrKeyLens[t.k%3])), IntegKInfo: integ.StrToKType("AUTH_HMAC_SHA1_96")}
			if err := ch.GenerateKeyForChildSA(sa, univ.Pat(32, t.k)); err != nil {
				return "error"
			}
			t.hold()
			return fmt.Sprintf("%x|%x", ch.InitiatorToResponderEncryptionKey, ch.ResponderToInitiatorIntegrityKey)
		}},
		{"transform-mapping", func(t *tctx) string {
			var sb strings.Builder
			fns := decodeFns()
			// thread-specific mix: even threads decode the genuine AES-CBC transforms, odd threads the look-alikes
			vals := []uint16{128, 192, 256}
			for _, v := range vals {
				at := uint16(14)
				if t.k%2 == 1 {
					at = 14 + 128
				}
				lt := libTransform(ref.Transform{Type: 1, ID: 12, HasAttr: true, TV: true, AType: at, AValue: v})
				sb.WriteString(fmt.Sprint(fns[0].f(lt).ok, fns[1].f(lt).keyLen, ";"))
				t.hold()
			}
			nid := uint16(16)
			if t.small {
				nid = 3
			}
			for id := uint16(0); id < nid; id++ {
				for _, f := range fns[2:] {
					sb.WriteString(fmt.Sprint(f.f(libTransform(ref.Transform{Type: f.ttype, ID: id})).ok))
				}
			}
			return sb.String()
		}},
		{"eap-aka/marshal/hold/unmarshal/mac", func(t *tctx) string {
			e := &ref.EAP{Code: 1, ID: uint8(t.k), Method: 50, Sub: 1, AKA: []ref.AKAAttr{{T: ref.AtRAND, V: univ.Pat(16, t.k)}, {T: ref.AtRES, V: univ.Pat(5+t.k%8, t.k)}, {T: ref.AtKDFInput, V: univ.Pat(9+t.k, t.k)}}}
			le, err := univ.BuildEAP(e)
			if err != nil {
				return "build error"
			}
			key := univ.Pat(32, 70+t.k)
			mac, err := le.CalcEapAkaPrimeAtMAC(key)
			if err != nil {
				return "mac error"
			}
			le.EapTypeData.(*eap.EapAkaPrime).SetAttr(eap.AT_MAC, mac)
			b, err := le.Marshal()
			if err != nil {
				return "marshal error"
			}
			t.hold()
			want, _ := ref.AtMACOverWire(key, b)
			d := new(eap.EAP)
			if err := d.Unmarshal(b); err != nil {
				return "held packet no longer decodes"
			}
			var sb strings.Builder
			if ak, ok := d.EapTypeData.(*eap.EapAkaPrime); ok {
				for _, at := range []eap.EapAkaPrimeAttrType{eap.AT_RAND, eap.AT_RES, eap.AT_KDF_INPUT, eap.AT_MAC} {
					if a, err := ak.GetAttr(at); err == nil {
						fmt.Fprintf(&sb, " %d=%x", at, a.GetValue())
					}
				}
			}
			return fmt.Sprintf("mac-ok=%v%s", bytes.Equal(mac, want), sb.String())
		}},
		{"prf'", func(t *tctx) string {
			ke, ka, _, _, emsk, err := eap.EapAkaPrimePRF(univ.Pat(16, t.k), univ.Pat(16, t.k+1), fmt.Sprintf("0%d@nai", t.k))
			if err != nil {
				return "error"
			}
			t.hold()
			return fmt.Sprintf("%x %x %x", ke, ka, emsk)
		}},
		{"random-number+uint8", func(t *tctx) string {
			n, err := security.GenerateRandomNumber()
			if err != nil {
				return "error"
			}
			_, err = security.GenerateRandomUint8()
			if err != nil {
				return "error"
			}
			whose := ""
			if t.setConst != nil { // scripted source: the number is a function of (thread, call index)
				whose = " n=" + engine.Hex(n.Bytes()[:8])
			}
			return fmt.Sprint("in-range=", n.Cmp(two128) >= 0 && n.Cmp(two2048) < 0) + whose
		}},
		{"enum-strings", func(t *tctx) string {
			var sb strings.Builder
			lo := 30
			if t.small {
				lo = 47
			}
			for i := lo; i < 52; i++ {
				sb.WriteString(message.IkePayloadType(i).String())
			}
			t.hold()
			for _, x := range []int{1, 2, 3, 50, 254, 7} {
				sb.WriteString(eap.EapType(x).String())
			}
			for _, x := range []int{1, 2, 3, 11, 23, 24, 134, 9} {
				sb.WriteString(eap.EapAkaPrimeAttrType(x).String())
			}
			return sb.String()
		}},
		{"dh-group2", func(t *tctx) string {
			d := dh.StrToType("DH_1024_BIT_MODP")
			x := new(big.Int).SetBytes(univ.Pat(20, t.k))
			pub := d.GetPublicValue(x)
			t.hold()
			sh := d.GetSharedKey(x, new(big.Int).SetBytes(univ.Pat(128, t.k+9)))
			return fmt.Sprintf("%x %x", pub[:8], sh[:8])
		}},
		{"dh-group14", func(t *tctx) string {
			d := dh.StrToType("DH_2048_BIT_MODP")
			x := new(big.Int).SetBytes(univ.Pat(6, t.k)) // short exponents keep the op cheap
			pub := d.GetPublicValue(x)
			t.hold()
			sh := d.GetSharedKey(x, new(big.Int).SetBytes(univ.Pat(256, t.k+9)))
			return fmt.Sprintf("%x %x", pub[:8], sh[:8])
		}},
		{"eap-marshal/hold/compare", func(t *tctx) string {
			le, _ := univ.BuildEAP(&ref.EAP{Code: 2, ID: uint8(t.k), Method: 1, Data: univ.Pat(9+t.k, t.k)})
			b, err := le.Marshal()
			if err != nil {
				return "error"
			}
			want := append([]byte(nil), b...)
			t.hold()
			return fmt.Sprintf("held=%v", bytes.Equal(b, want))
		}},
		{"new-ike-sa-key(dh+random)", func(t *tctx) string {
			prop, _ := infoSA(c07Case{PRF: t.k % 3, Integ: 1, Encr: 0, DH: t.k % 2}).ToProposal() // threads negotiate different groups
			sa, pub, err := security.NewIKESAKey(prop, []byte{2}, univ.Pat(32, t.k), 1, 2)
			if err != nil {
				return "error"
			}
			t.hold()
			want := ref.DeriveIKE(ref.PRFs[t.k%3], ref.Integs[1], 16, univ.Pat(32, t.k), pub, 1, 2)
			sig, _ := checkSA(sa, want, ref.PRFs[t.k%3], ref.Integs[1])
			// the public value belongs to this thread's exponent (its own random stream): a value computed for
			// somebody else's request is a consistent but foreign result
			whose := ""
			if t.setConst != nil {
				whose = " pub=" + engine.Hex(pub[:8])
			}
			return "sa " + sig + whose
		}},
		{"unprotect-refused/hold/error-text", func(t *tctx) string {
			// a refused datagram: the error value is kept by the caller and read again later
			ks := univ.MakeKeySet((t.k+4)%9, 2, 5+t.k)
			sa, _ := univ.NewSA(ks)
			ske, ska := ks.DirKeys(true)
			m := c18Msg(t.k + 9)
			_, inner, _ := ref.EncodeChain(m.P, ref.Lib{})
			pad := (16 - (len(inner)+1)%16) % 16
			b, err := ref.Protect(ks.Suite, ske, ska, m, ref.Lib{}, univ.Pat(16, 60+t.k), univ.Pat(pad, t.k))
			if err != nil {
				return "reference protect error"
			}
			b[len(b)-1-t.k%8] ^= byte(1 + t.k)
			_, derr := ike.DecodeDecrypt(b, nil, sa, message.Role_Responder)
			if derr == nil {
				return "damaged datagram accepted"
			}
			first := derr.Error()
			t.hold()
			again := derr.Error()
			_, derr2 := ike.DecodeDecrypt(b[:len(b)-3], nil, sa, message.Role_Responder)
			return fmt.Sprintf("%s | same text after hold=%v | truncated refused=%v", first, first == again, derr2 != nil)
		}},
		{"encode-refused/hold/encode", func(t *tctx) string {
			// a message whose second / third payload cannot be encoded (a TS payload without selectors, a Notify whose
			// SPI is too long): the refusal concerns this message only
			var ps message.IKEPayloadContainer
			ps.BuildNonce(univ.Pat(24+t.k, t.k))
			if t.k%2 == 0 {
				ps.BuildTrafficSelectorInitiator()
			} else {
				ps.BuildNotification(3, 16393, univ.Pat(300, t.k), nil)
			}
			ps.BuildNonce(univ.Pat(8, t.k+1))
			lm := message.NewMessage(1, 2, 35, false, true, uint32(t.k), ps)
			_, err := lm.Encode()
			t.hold()
			m := c18Msg(t.k + 2)
			good, berr := univ.Build(m)
			if berr != nil {
				return "build error"
			}
			b, e2 := good.Encode()
			if e2 != nil {
				return "encode error"
			}
			d := new(message.IKEMessage)
			if derr := d.Decode(b); derr != nil {
				return fmt.Sprintf("refused=%v then: own encoding does not decode", err != nil)
			}
			return fmt.Sprintf("refused=%v then %s", err != nil, univ.Project(d).Canon())
		}},
		{"dh-peer-value-not-below-p/hold/again", func(t *tctx) string {
			// a peer sends a key exchange value that is not below the group prime (p + 5 + k fits the field): whatever
			// this exchange yields, the group serves the next exchange (this thread's and everybody else's) as before
			gi := t.k % 2
			d := dh.StrToType(dhNames[gi])
			g := ref.GroupByID(dhIDs[gi])
			x := new(big.Int).SetBytes(univ.Pat(5, t.k+30))
			big1 := new(big.Int).Add(g.P, big.NewInt(int64(5+t.k)))
			sh := d.GetSharedKey(x, big1)
			t.hold()
			y := new(big.Int).SetBytes(univ.Pat(g.Len-1, t.k+31))
			sh2 := d.GetSharedKey(x, y)
			first := "refused"
			if len(sh) >= 8 {
				first = engine.Hex(sh[:8])
			}
			return fmt.Sprintf("%s ok=%v", first, bytes.Equal(sh2, g.Shared(x, y)))
		}},
		{"to-proposal/edit/hold/again", func(t *tctx) string {
			// every thread's SA uses the same PRF, integrity algorithm and group (AES key size differs): the proposal an
			// SA hands out belongs to the caller, who edits it (offers something else) and asks again later
			cs := c07Case{PRF: 1, Integ: 1, Encr: t.k % 3, DH: 1}
			want := fmt.Sprintf("%d/%d/%d/%d/%d", 12, ref.EncrKeyLens[cs.Encr]*8, 2, 2, 14)
			show := func(p *message.Proposal) string {
				if p == nil || len(p.EncryptionAlgorithm) != 1 || len(p.PseudorandomFunction) != 1 || len(p.IntegrityAlgorithm) != 1 || len(p.DiffieHellmanGroup) != 1 {
					return "malformed proposal"
				}
				return fmt.Sprintf("%d/%d/%d/%d/%d", p.EncryptionAlgorithm[0].TransformID, p.EncryptionAlgorithm[0].AttributeValue, p.PseudorandomFunction[0].TransformID,
					p.IntegrityAlgorithm[0].TransformID, p.DiffieHellmanGroup[0].TransformID)
			}
			sa := infoSA(cs)
			p1, err := sa.ToProposal()
			if err != nil {
				return "error"
			}
			first := show(p1)
			engine.Scribble(p1)
			t.hold()
			p2, err := infoSA(cs).ToProposal()
			if err != nil {
				return "error"
			}
			return fmt.Sprintf("first=%v again=%v", first == want, show(p2) == want)
		}},
		{"new-ike-sa-key(source down, then up)", func(t *tctx) string {
			if t.setConst == nil {
				return "skipped"
			}
			prop, _ := infoSA(c07Case{PRF: 2, Integ: 2, Encr: t.k % 3, DH: 0}).ToProposal()
			t.setConst(-2)
			_, _, err := security.NewIKESAKey(prop, []byte{2}, univ.Pat(32, t.k), 3, 4)
			t.setConst(-1)
			refused := err != nil
			t.hold()
			_, pub, err := security.NewIKESAKey(prop, []byte{2}, univ.Pat(32, t.k), 3, 4)
			if err != nil {
				return fmt.Sprintf("refused=%v then error", refused)
			}
			return fmt.Sprintf("refused=%v then pub=%x", refused, pub[:8])
		}},
		{"random-number(stuck source)", func(t *tctx) string {
			// this thread's random source is stuck at a constant (other threads' sources are their own)
			if t.setConst == nil {
				return "skipped"
			}
			t.setConst(0x50 + t.k%4)
			defer t.setConst(-1)
			n, err := security.GenerateRandomNumber()
			if err != nil {
				return "error"
			}
			t.hold()
			n2, err := security.GenerateRandomNumber()
			if err != nil {
				return "error on second draw"
			}
			return fmt.Sprintf("%x %v", n.Bytes()[:4], n.Cmp(n2) == 0)
		}},
	}
}

var c18Small = []int{0, 1, 3, 4, 6, 13} // sub-alphabet for 2-op programs and 3 threads

// c18Execute runs the thread programs under the cooperative scheduler driven by run r.
func c18Execute(progs [][]int, r *engine.Run, lvl int) (results []string, s *engine.Sched, sharedIntact bool) {
	ops := c18Ops()
	s = engine.NewSched(r)
	seam := engine.NewSeam(nil, nil)
	seam.Horizon = 1000
	seam.StreamOf = func() uint64 { return uint64(1000 + s.Current()) }
	constFor := make([]int, len(progs)+1)
	for i := range constFor {
		constFor[i] = -1
	}
	seam.ConstOf = func() int {
		if cur := s.Current(); cur >= 0 && cur < len(constFor) {
			return constFor[cur]
		}
		return -1
	}
	seam.Before = func() { s.Point("rand.Read") }
	restore := engine.Install(seam)
	defer restore()
	fine := lvl >= 1
	if engine.InstrumentedBuild() {
		// map iteration order is nondeterminism the scheduler does not own: pin it (sorted keys), otherwise the
		// number of statements executed (e.g. comparisons of a later sort) differs between executions
		engine.SetMapOrderHook(func(n int) []int {
			p := make([]int, n)
			for i := range p {
				p[i] = i
			}
			return p
		})
		defer engine.SetMapOrderHook(nil)
		if lvl >= 2 {
			engine.SetStepHook(func() { s.Point("statement") }) // Point ignores goroutines the scheduler does not own
			defer engine.SetStepHook(nil)
		}
		rd := newRaceDetector(len(progs))
		s.Race = rd
		engine.SetSchedHooks(func(label string) {
			if !s.Owned() {
				return
			}
			rd.syncOp(s.Current())
			s.Point(label)
		}, s.Block)
		engine.SetAccessHook(func(id int, write bool) {
			if !s.Owned() {
				return
			}
			rd.access(s.Current(), id, write)
			if fine {
				s.Point("global-access")
			}
		})
		defer engine.SetSchedHooks(nil, nil)
		defer engine.SetAccessHook(nil)
	}
	shared0 := append([]byte(nil), c18Shared...)
	results = make([]string, len(progs))
	for ti, prog := range progs {
		ti, prog := ti, prog
		s.Go(func(t *engine.Thread) {
			var out []string
			for _, oi := range prog {
				out = append(out, ops[oi].run(&tctx{k: ti, hold: func() { s.Point("hold") }, small: fine, setConst: func(v int) { constFor[ti] = v }}))
				s.Point("op-boundary")
			}
			results[ti] = strings.Join(out, " || ")
		})
	}
	s.Run()
	return results, s, bytes.Equal(shared0, c18Shared)
}

var c18SoloCache = map[string]string{}

// c18Solo is what a program returns when run alone (as thread index ti, so that contents match).
func c18Solo(ti int, prog []int, lvl int) string {
	engine.Begin(func() interface{} {
		progs := make([][]int, ti+1)
		progs[ti] = prog
		return c18Case{K: "solo", Progs: progs, Fine: lvl >= 1, Step: lvl >= 2}
	})
	defer engine.End()
	fine := lvl >= 1
	key := fmt.Sprint(ti, prog, fine)
	if v, ok := c18SoloCache[key]; ok {
		return v
	}
	progs := make([][]int, ti+1)
	progs[ti] = prog
	// threads with empty programs finish immediately; thread ti runs alone
	lv := 0
	if fine {
		lv = 1
	}
	res, _, _ := c18Execute(progs, engine.NewReplayRun(nil), lv)
	c18SoloCache[key] = res[ti]
	return res[ti]
}

func init() {
	engine.Register(&engine.Check{
		ID:    "C18",
		Level: "model_checking",
		Rule: "pass 1 (deciding): stateless exploration of thread interleavings under a cooperative scheduler on the real code. Thread programs of 1 op over a 15-op alphabet (all ordered pairs, 2 threads, every interleaving) and of 2 ops / 3 threads over a 6-op sub-alphabet (preemption bound 2); each op works on its own SA / messages / big integers and contains 'hold' points where the caller keeps a result while others run. " +
			"Scheduling points: thread start/end, op boundaries, hold points, every read of the shared random source; in the instrumented build additionally every access to package-level state and every lock operation. Oracle: every thread's result equals its solo result, a shared read-only input stays unmodified, no deadlock. A state is a schedule (choice vector); distinct_nontrivial counts schedules with at least one context switch in the middle of a thread. " +
			"pass 2 (auxiliary, sampling): the same op bodies free-running on N ∈ {2, 8, 64} goroutines × GOMAXPROCS ∈ {2, 4, 16} in a binary built with -race; any race report or result ≠ solo result is a violation",
		Assumptions: []string{"pass 1 is exhaustive for 2-3 logical threads at the listed scheduling points; memory-model effects and N up to 64 are reached only by the sampling pass 2",
			"random content is a function of (thread, call index) so results are schedule-independent unless threads interfere"},
		MaxShards: 16,
		Run:       runC18,
		Replay: func(c *engine.Ctx, raw json.RawMessage) {
			var cs c18Case
			unmarshalCase(raw, &cs)
			if cs.K == "footprint" {
				c18Footprints(c, cs.Progs[0])
				return
			}
			lv := 0
			if cs.Fine {
				lv = 1
			}
			if cs.Step {
				lv = 2
			}
			c18One(c, cs.Progs, engine.NewReplayRun(cs.Sched), cs.Bound, lv)
		},
	})
}

func c18One(c *engine.Ctx, progs [][]int, r *engine.Run, bound int, lvl int) {
	c.Evals++
	fine := lvl >= 1
	// published for the watchdog: a library call that blocks forever inside a schedule (a leaked semaphore slot, a
	// channel nobody serves) leaves the worker without progress and without CPU consumption
	engine.Begin(func() interface{} {
		return c18Case{Progs: progs, Sched: r.Choices(), Bound: bound, Fine: fine, Step: lvl >= 2}
	})
	defer engine.End()
	res, s, intact := c18Execute(progs, r, lvl)
	c.Transitions += int64(s.Points)
	c.Traces++
	cs := func() c18Case {
		return c18Case{Progs: progs, Sched: r.Choices(), Bound: bound, Fine: fine, Step: lvl >= 2}
	}
	ops := c18Ops()
	names := func() string {
		var p []string
		for _, pr := range progs {
			var n []string
			for _, o := range pr {
				n = append(n, ops[o].name)
			}
			p = append(p, "["+strings.Join(n, ", ")+"]")
		}
		return strings.Join(p, " ‖ ")
	}
	if r.Diverged != "" {
		c.Note("harness: " + r.Diverged)
		c.Cap("schedule replay diverged (nondeterminism outside the scheduler's control)")
		return
	}
	if s.Foreign > 0 || engine.ForeignSeen {
		c.Cap("the library runs code on goroutines of its own: their interleavings are not owned by the scheduler (hook calls from them are ignored; results are still compared)")
	}
	if s.Deadlock {
		c.Violate("deadlock", fmt.Sprintf("%s: no thread can continue; %s", names(), s.Describe()), cs())
		return
	}
	if s.Points > 1500 && lvl < 2 {
		c.Note(fmt.Sprintf("execution with %d scheduling points: %s fine=%v", s.Points, names(), fine))
	}
	if s.Livelock {
		c.Cap("scheduling-point horizon reached")
	}
	if rd, ok := s.Race.(*raceDetector); ok && rd.found != "" {
		c.Violate("race/"+rd.foundVar, fmt.Sprintf("%s: %s; schedule %v", names(), rd.found, s.Trace), cs())
		return
	}
	if !intact {
		c.Violate("shared-input-modified", names()+": the shared read-only input buffer was written", cs())
		return
	}
	for ti := range progs {
		want := c18Solo(ti, progs[ti], lvl)
		if res[ti] != want {
			var n []string
			for _, o := range progs[ti] {
				n = append(n, ops[o].name)
			}
			c.Violate("interference/"+strings.Join(n, "+"), fmt.Sprintf("%s: thread %d returns %s, alone it returns %s; schedule %v", names(), ti, trs(res[ti]), trs(want), s.Trace), cs())
			return
		}
	}
	if s.Switches > len(progs) {
		c.DistinctS(fmt.Sprint(progs, r.Choices()))
	}
	if c.State(engine.Hash64([]byte(fmt.Sprint(progs, s.Trace)))) {
		c.States++
	}
}

func runC18(c *engine.Ctx) {
	ops := c18Ops()
	n := len(ops)
	explore := func(progs [][]int, bound int) {
		st := engine.Explore(bound, 200000, func(r *engine.Run) { c18One(c, progs, r, bound, 0) }, func(r *engine.Run) {})
		c.Count("schedules", st.Executions)
		if engine.InstrumentedBuild() && (c.Thorough() || len(progs[0]) == 1) {
			// fine-grained phase: every access to package-level state and every lock operation is a scheduling
			// point as well; iterative preemption bounding keeps the space finite
			fb := 2
			if c.Thorough() {
				fb = 3
			}
			if len(progs) > 2 {
				fb-- // three threads: one preemption less (the space grows with points^(bound+threads-1))
			}
			if bound < fb {
				fb = bound
			}
			st2 := engine.Explore(fb, 100000, func(r *engine.Run) { c18One(c, progs, r, fb, 1) }, func(r *engine.Run) {})
			c.Count("schedules(fine-grained)", st2.Executions)
			if st2.Capped {
				c.Cap(fmt.Sprintf("fine-grained execution cap for programs %v", progs))
			}
			// statement-grained phase: every statement of the library is a scheduling point; one preemption
			// (thread A is stopped before any one of its statements, the others run, A resumes) — this
			// reaches shared heap objects that are only *obtained* through package-level state and mutated
			// later through local pointers, which the access points above do not separate
			if len(progs) == 2 && len(progs[0]) == 1 {
				sb := 1
				st3 := engine.Explore(sb, 100000, func(r *engine.Run) { c18One(c, progs, r, sb, 2) }, func(r *engine.Run) {})
				c.Count("schedules(statement-grained)", st3.Executions)
				if st3.Capped {
					c.Cap(fmt.Sprintf("statement-grained execution cap for programs %v", progs))
				}
			}
		}
		if st.Capped {
			c.Cap(fmt.Sprintf("execution cap for programs %v", progs))
		}
	}
	unbounded := 64
	// 2 threads, 1 op each: all ordered pairs, every interleaving
	for a := 0; a < n; a++ {
		for b := 0; b < n; b++ {
			if !c.Mine() {
				continue
			}
			explore([][]int{{a}, {b}}, unbounded)
			c.Count("program_tuples", 1)
		}
	}
	// 2 threads, 2 ops each over the sub-alphabet
	pb := 2
	if c.Thorough() {
		pb = 3
	}
	for _, a1 := range c18Small {
		for _, a2 := range c18Small {
			for _, b1 := range c18Small {
				for _, b2 := range c18Small {
					if !c.Mine() {
						continue
					}
					if !c.Thorough() && (a1*7+a2*5+b1*3+b2)%4 != 0 {
						continue
					}
					explore([][]int{{a1, a2}, {b1, b2}}, pb)
					c.Count("program_tuples", 1)
				}
			}
		}
	}
	// 3 threads, 1 op each over the sub-alphabet
	for _, a := range c18Small {
		for _, b := range c18Small {
			for _, d := range c18Small {
				if !c.Mine() {
					continue
				}
				explore([][]int{{a}, {b}, {d}}, pb)
				c.Count("program_tuples", 1)
			}
		}
	}
	if c.Shard == 0 {
		var all []int
		for i := range ops {
			all = append(all, i)
		}
		c18Footprints(c, all)
		c18RacePass(c)
	}
}

// ---- pass 2: free-running goroutines in a -race build ---------------------------

// RacePassMain is run inside the binary built with -race: N goroutines, each running every op of the
// alphabet on its own data, started together; results are compared with the solo results.
func RacePassMain(n, rounds int) int {
	ops := c18Ops()
	solo := make([][]string, n)
	for g := 0; g < n; g++ {
		solo[g] = make([]string, len(ops))
		for oi, op := range ops {
			if oi == 9 || oi == 14 || oi == 16 {
				continue
			}
			solo[g][oi] = op.run(&tctx{k: g % 16, hold: func() {}})
		}
	}
	bad := 0
	for round := 0; round < rounds; round++ {
		var wg sync.WaitGroup
		start := make(chan struct{})
		var mu sync.Mutex
		for g := 0; g < n; g++ {
			wg.Add(1)
			go func(g int) {
				defer wg.Done()
				<-start
				for i := range ops {
					oi := (i + g + round) % len(ops)
					if oi == 14 && (g > 3 || round > 0) {
						continue // the DH-heavy op only on a few goroutines
					}
					got := ops[oi].run(&tctx{k: g % 16, hold: runtime.Gosched})
					if solo[g][oi] != "" && got != solo[g][oi] {
						mu.Lock()
						bad++
						if bad <= 3 {
							fmt.Printf("MISMATCH goroutine %d op %s: %s vs solo %s\n", g, ops[oi].name, trs(got), trs(solo[g][oi]))
						}
						mu.Unlock()
					}
				}
			}(g)
		}
		close(start)
		wg.Wait()
	}
	if bad > 0 {
		fmt.Printf("RACEPASS mismatches=%d\n", bad)
		return 3
	}
	fmt.Println("RACEPASS ok")
	return 0
}

func c18RacePass(c *engine.Ctx) {
	bin := os.Getenv("VERIF_RACE_BIN")
	if bin == "" {
		c.Note("pass 2 not run: no -race binary (VERIF_RACE_BIN unset)")
		return
	}
	rounds := "2"
	if c.Thorough() {
		rounds = "40"
	}
	for ni, n := range []string{"2", "8", "64"} {
		for pi, p := range []string{"2", "4", "16"} {
			if !c.Thorough() && ni != pi {
				continue // quick: (2,2), (8,4), (64,16); thorough: the full grid
			}
			cmd := exec.Command(bin, "racepass", n, rounds)
			cmd.Env = append(os.Environ(), "GOMAXPROCS="+p, "GORACE=halt_on_error=1 exitcode=66")
			engine.WaitingForChild(true)
			out, err := cmd.CombinedOutput()
			engine.WaitingForChild(false)
			c.Count("race_pass_runs", 1)
			code := 0
			if err != nil {
				if ee, ok := err.(*exec.ExitError); ok {
					code = ee.ExitCode()
				} else {
					c.Note("pass 2 could not start: " + err.Error())
					continue
				}
			}
			s := string(out)
			switch {
			case code == 66 || strings.Contains(s, "DATA RACE"):
				i := strings.Index(s, "WARNING: DATA RACE")
				if i < 0 {
					i = 0
				}
				e := i + 1500
				if e > len(s) {
					e = len(s)
				}
				c.Violate("noreplay/data-race", fmt.Sprintf("race detector report with N=%s goroutines, GOMAXPROCS=%s:\n%s", n, p, s[i:e]), map[string]string{"n": n, "gomaxprocs": p})
				return
			case code == 3:
				c.Violate("noreplay/free-running-interference", fmt.Sprintf("N=%s GOMAXPROCS=%s: %s", n, p, trs(s)), map[string]string{"n": n, "gomaxprocs": p})
				return
			case code != 0:
				c.Violate("noreplay/free-running-crash", fmt.Sprintf("N=%s GOMAXPROCS=%s exit %d: %s", n, p, code, trs(s)), map[string]string{"n": n, "gomaxprocs": p})
				return
			}
		}
	}
}

// ---- happens-before race detection over the instrumented global accesses ----------------

// raceDetector keeps vector clocks per logical thread. Every vsync operation is treated as an
// acquire+release of one global synchronisation object (an over-approximation of happens-before
// that can only hide races, never invent them); an access pair on the same package-level variable
// from two threads, at least one a syntactically definite write, unordered by happens-before, is a
// definite race.
type raceDetector struct {
	syncs    int
	vc       [][]int
	global   []int
	lastW    map[string]accessRec
	lastR    map[string][]accessRec
	found    string
	foundVar string
}

type accessRec struct {
	thread int
	clock  int
	site   string
}

func newRaceDetector(n int) *raceDetector {
	rd := &raceDetector{lastW: map[string]accessRec{}, lastR: map[string][]accessRec{}, global: make([]int, n)}
	for i := 0; i < n; i++ {
		v := make([]int, n)
		v[i] = 1
		rd.vc = append(rd.vc, v)
	}
	return rd
}

func (rd *raceDetector) syncOp(t int) {
	rd.syncs++
	if t < 0 || t >= len(rd.vc) {
		return
	}
	for i := range rd.global {
		if rd.global[i] > rd.vc[t][i] {
			rd.vc[t][i] = rd.global[i]
		}
	}
	copy(rd.global, rd.vc[t])
	rd.vc[t][t]++
}

func (rd *raceDetector) access(t, id int, write bool) {
	if t < 0 || t >= len(rd.vc) || rd.found != "" {
		return
	}
	sites := engine.AccessSites()
	desc := fmt.Sprint(id)
	if id < len(sites) {
		desc = sites[id]
	}
	f := strings.Fields(desc)
	vars := desc
	if len(f) >= 2 {
		vars = f[1]
	}
	for _, v := range strings.Split(vars, ",") {
		if v == "crypto/rand.Reader" {
			continue // owned by the harness seam
		}
		hb := func(a accessRec) bool { return a.thread == t || a.clock <= rd.vc[t][a.thread] }
		if w, ok := rd.lastW[v]; ok && !hb(w) {
			rd.found = fmt.Sprintf("definite data race on %s: thread %d at [%s] and thread %d at [%s] are not ordered by happens-before", v, w.thread, w.site, t, desc)
			rd.foundVar = v
			return
		}
		if write {
			for _, r := range rd.lastR[v] {
				if !hb(r) {
					rd.found = fmt.Sprintf("definite data race on %s: read by thread %d at [%s], write by thread %d at [%s], not ordered by happens-before", v, r.thread, r.site, t, desc)
					rd.foundVar = v
					return
				}
			}
			rd.lastW[v] = accessRec{t, rd.vc[t][t], desc}
			rd.lastR[v] = nil
		} else {
			rd.lastR[v] = append(rd.lastR[v], accessRec{t, rd.vc[t][t], desc})
		}
	}
	rd.vc[t][t]++
}

// ---- state footprint of single ops (instrumented build) -----------------------------------

func dumpGlobals() map[string]string {
	out := map[string]string{}
	for pkg, vars := range engine.GlobalPointers() {
		for name, ptr := range vars {
			out[pkg+"."+name] = engine.Dump(ptr)
		}
	}
	return out
}

type footprint struct {
	changed []string
	syncs   int
}

// c18Footprint runs one op alone and reports which package-level variables (deep: everything reachable
// from them, e.g. a scratch field inside a shared registry object) changed, and how many lock / pool /
// sync.Map operations the op performed.
func c18Footprint(oi, k int) footprint {
	before := dumpGlobals()
	progs := make([][]int, k+1)
	progs[k] = []int{oi}
	_, s, _ := c18Execute(progs, engine.NewReplayRun(nil), 0)
	after := dumpGlobals()
	var fp footprint
	for v, d := range after {
		if before[v] != d {
			fp.changed = append(fp.changed, v)
		}
	}
	sort.Strings(fp.changed)
	if rd, ok := s.Race.(*raceDetector); ok {
		fp.syncs = rd.syncs
	}
	return fp
}

// c18Footprints: an op that changes state reachable from package-level variables without performing
// any synchronisation operation writes that state unordered with respect to everything another
// goroutine does; if another op (or a second instance of the same op) changes the same variable, the
// two writes are a definite data race whenever the ops run in parallel. A library that keeps no
// mutable state outside the objects passed in has empty footprints.
// C18FirstUseMain runs op oi as the very first use of the library in this process and prints its state
// footprint as JSON (lazy initialisation shows only here: any earlier use would have filled the tables).
func C18FirstUseMain(oi int) int {
	fp := c18Footprint(oi, 0)
	b, _ := json.Marshal(map[string]interface{}{"changed": fp.changed, "syncs": fp.syncs})
	fmt.Println("FIRSTUSE " + string(b))
	return 0
}

func c18FirstUse(oi int) (footprint, bool) {
	exe, err := os.Executable()
	if err != nil {
		return footprint{}, false
	}
	cmd := exec.Command(exe, "c18first", fmt.Sprint(oi))
	cmd.Env = append(os.Environ(), "GOMAXPROCS=1")
	engine.WaitingForChild(true)
	out, err := cmd.Output()
	engine.WaitingForChild(false)
	if err != nil {
		return footprint{}, false
	}
	for _, l := range strings.Split(string(out), "\n") {
		if strings.HasPrefix(l, "FIRSTUSE ") {
			var r struct {
				Changed []string `json:"changed"`
				Syncs   int      `json:"syncs"`
			}
			if json.Unmarshal([]byte(l[9:]), &r) == nil {
				return footprint{changed: r.Changed, syncs: r.Syncs}, true
			}
		}
	}
	return footprint{}, false
}

func c18Footprints(c *engine.Ctx, opIdx []int) {
	if !engine.InstrumentedBuild() {
		c.Note("state footprints not measured in a plain build")
		return
	}
	ops := c18Ops()
	fps := map[int]footprint{}
	for _, oi := range opIdx {
		// three runs of the op alone: as thread 0, as thread 1 (other contents), and as the very first use of the
		// library in a fresh process (lazy initialisation shows only there). The number of synchronisation
		// operations that matters is that of the runs that changed something (a run that touches no shared state
		// needs no synchronisation).
		runs := []footprint{c18Footprint(oi, 0), c18Footprint(oi, 1)}
		if fu, ok := c18FirstUse(oi); ok {
			c.Count("first_use_footprints_measured", 1)
			runs = append(runs, fu)
		}
		fp := footprint{syncs: -1}
		seen := map[string]bool{}
		for _, r := range runs {
			if len(r.changed) == 0 {
				continue
			}
			if fp.syncs < 0 || r.syncs < fp.syncs {
				fp.syncs = r.syncs
			}
			for _, v := range r.changed {
				if !seen[v] {
					seen[v] = true
					fp.changed = append(fp.changed, v)
				}
			}
		}
		if fp.syncs < 0 {
			fp.syncs = 0
		}
		fps[oi] = fp
		c.Evals++
		if len(fp.changed) > 0 {
			c.Count("ops_that_change_package_level_state", 1)
			c.Note(fmt.Sprintf("op %q changes package-level state %v (sync operations during the op: %d)", ops[oi].name, fp.changed, fp.syncs))
		}
	}
	c.Count("ops_with_measured_state_footprint", int64(len(opIdx)))
	if engine.AtomicImports() > 0 {
		c.Note("the library imports sync/atomic: unsynchronised-write rule not applied (atomic updates are not redirected)")
		return
	}
	for i, a := range opIdx {
		for _, b := range opIdx[i:] {
			fa, fb := fps[a], fps[b]
			if fa.syncs > 0 && fb.syncs > 0 {
				continue
			}
			for _, v := range fa.changed {
				for _, w := range fb.changed {
					if v == w {
						c.Violate("unsynchronised-global-write/"+v, fmt.Sprintf("ops %q and %q both change state reachable from %s and at least one of them performs no synchronisation at all: run in parallel on two goroutines the writes are a data race", ops[a].name, ops[b].name, v),
							c18Case{K: "footprint", Progs: [][]int{{a, b}}})
					}
				}
			}
		}
	}
}

// C18StepDebug prints, per op, the number of scheduling points of five consecutive solo runs at statement
// granularity (they must be equal: the exploration relies on executions being reproducible).
func C18StepDebug() int {
	ops := c18Ops()
	bad := 0
	for oi := range ops {
		var ns []int
		for i := 0; i < 5; i++ {
			_, s, _ := c18Execute([][]int{{oi}}, engine.NewReplayRun(nil), 2)
			ns = append(ns, s.Points)
		}
		fmt.Println(oi, ops[oi].name, ns)
		for _, n := range ns {
			if n != ns[0] {
				bad = 1
			}
		}
	}
	return bad
}
