package checks

import (
	"encoding/json"
	"fmt"
	"sort"

	ike "github.com/free5gc/ike"
	"github.com/free5gc/ike/eap"
	"github.com/free5gc/ike/message"
	"github.com/free5gc/ike/security"
	"github.com/free5gc/ike/security/encr"

	"verif/mc/engine"
	"verif/mc/ref"
	"verif/mc/univ"
)

// C04 — decoders survive arbitrary bytes: value or error, never crash, hang or over-read.

type decoder struct {
	name string
	f    func(b []byte) (string, error)
	syms []byte // alphabet for U-small
}

func payloadDec(mk func() message.IKEPayload) func(b []byte) (string, error) {
	return func(b []byte) (string, error) {
		p := mk()
		if err := p.Unmarshal(b); err != nil {
			return "", err
		}
		return ref.CanonPayloads(univ.ProjectPayloads(message.IKEPayloadContainer{p})), nil
	}
}

func eapDec(mk func() eap.EapTypeData) func(b []byte) (string, error) {
	return func(b []byte) (string, error) {
		d := mk()
		if err := d.Unmarshal(b); err != nil {
			return "", err
		}
		return univ.ProjectEAP(&eap.EAP{EapTypeData: d}).Canon(), nil
	}
}

var c04SA3 []*security.IKESAKey // lazily built SAs for DecodeDecrypt (one per encryption size class, different integrity each)

func c04SAs() []*security.IKESAKey {
	if c04SA3 == nil {
		for _, si := range []int{0, 4, 8} {
			sa, err := univ.NewSA(univ.MakeKeySet(si, 2, 2))
			if err != nil {
				panic(err)
			}
			c04SA3 = append(c04SA3, sa)
		}
	}
	return c04SA3
}

func decoders() []decoder {
	std := []byte{0x00, 0x01, 0x04, 0x08, 0x80, 0xff, 0x10}
	ds := []decoder{
		{"Message.Decode", func(b []byte) (string, error) {
			m := new(message.IKEMessage)
			if err := m.Decode(b); err != nil {
				return "", err
			}
			return univ.Project(m).Canon(), nil
		}, nil},
		{"ParseHeader", func(b []byte) (string, error) {
			h, err := message.ParseHeader(b)
			if err != nil {
				return "", err
			}
			return univ.ProjectHdr(h).Canon() + fmt.Sprintf(" next=%d rest=%x", h.NextPayload, h.PayloadBytes), nil
		}, nil},
	}
	for t := 32; t <= 49; t++ {
		tt := uint8(t)
		ds = append(ds, decoder{fmt.Sprintf("Container.Decode(first=%d)", t), func(b []byte) (string, error) {
			var c message.IKEPayloadContainer
			if err := c.Decode(tt, b); err != nil {
				return "", err
			}
			return ref.CanonPayloads(univ.ProjectPayloads(c)), nil
		}, []byte{0x00, 0x04, 0x05, 0x08, 0x80, tt, 0x29}})
	}
	pd := []struct {
		n    string
		mk   func() message.IKEPayload
		syms []byte
	}{
		{"SA", func() message.IKEPayload { return new(message.SecurityAssociation) }, []byte{0x00, 0x02, 0x03, 0x08, 0x0c, 0x80, 0xff}},
		{"KE", func() message.IKEPayload { return new(message.KeyExchange) }, std},
		{"IDi", func() message.IKEPayload { return new(message.IdentificationInitiator) }, std},
		{"IDr", func() message.IKEPayload { return new(message.IdentificationResponder) }, std},
		{"CERT", func() message.IKEPayload { return new(message.Certificate) }, std},
		{"CERTREQ", func() message.IKEPayload { return new(message.CertificateRequest) }, std},
		{"AUTH", func() message.IKEPayload { return new(message.Authentication) }, std},
		{"Nonce", func() message.IKEPayload { return new(message.Nonce) }, std},
		{"Notify", func() message.IKEPayload { return new(message.Notification) }, []byte{0x00, 0x01, 0x02, 0x04, 0xfc, 0xff, 0x80}},
		{"Delete", func() message.IKEPayload { return new(message.Delete) }, []byte{0x00, 0x01, 0x02, 0x03, 0x04, 0xff, 0x80}},
		{"Vendor", func() message.IKEPayload { return new(message.VendorID) }, std},
		{"TSi", func() message.IKEPayload { return new(message.TrafficSelectorInitiator) }, []byte{0x00, 0x01, 0x02, 0x07, 0x08, 0x10, 0x28}},
		{"TSr", func() message.IKEPayload { return new(message.TrafficSelectorResponder) }, []byte{0x00, 0x01, 0x02, 0x07, 0x08, 0x10, 0x28}},
		{"SK", func() message.IKEPayload { return new(message.Encrypted) }, std},
		{"CP", func() message.IKEPayload { return new(message.Configuration) }, []byte{0x00, 0x01, 0x02, 0x04, 0x80, 0xff, 0xfc}},
		{"EAPpayload", func() message.IKEPayload { return message.NewPayloadEap() }, []byte{0x00, 0x01, 0x04, 0x05, 0x06, 0x32, 0xfe}},
	}
	for _, p := range pd {
		ds = append(ds, decoder{p.n + ".Unmarshal", payloadDec(p.mk), p.syms})
	}
	ds = append(ds,
		decoder{"EAP.Unmarshal", func(b []byte) (string, error) {
			e := new(eap.EAP)
			if err := e.Unmarshal(b); err != nil {
				return "", err
			}
			return univ.ProjectEAP(e).Canon(), nil
		}, []byte{0x00, 0x01, 0x04, 0x05, 0x08, 0x32, 0xfe}},
		decoder{"EapIdentity.Unmarshal", eapDec(func() eap.EapTypeData { return new(eap.EapIdentity) }), []byte{0, 1, 2, 3, 0x32, 0xfe, 0xff}},
		decoder{"EapNotification.Unmarshal", eapDec(func() eap.EapTypeData { return new(eap.EapNotification) }), []byte{0, 1, 2, 3, 0x32, 0xfe, 0xff}},
		decoder{"EapNak.Unmarshal", eapDec(func() eap.EapTypeData { return new(eap.EapNak) }), []byte{0, 1, 2, 3, 0x32, 0xfe, 0xff}},
		decoder{"EapExpanded.Unmarshal", eapDec(func() eap.EapTypeData { return new(eap.EapExpanded) }), []byte{0, 1, 2, 3, 0x32, 0xfe, 0xff}},
		decoder{"EapAkaPrime.Unmarshal", eapDec(func() eap.EapTypeData { return new(eap.EapAkaPrime) }), []byte{0x32, 0x00, 0x01, 0x03, 0x05, 0x18, 0x86}},
	)
	// unprotection: keys nil / each suite class; header nil / parsed from the same bytes
	for ki := -1; ki < 3; ki++ {
		for _, ph := range []bool{false, true} {
			for _, role := range []bool{true, false} {
				ki, ph, role := ki, ph, role
				ds = append(ds, decoder{fmt.Sprintf("DecodeDecrypt(key=%d,parsedHeader=%v,initiator=%v)", ki, ph, role), func(b []byte) (string, error) {
					var hdr *message.IKEHeader
					if ph {
						var err error
						hdr, err = message.ParseHeader(b)
						if err != nil {
							return "", err
						}
					}
					var m *message.IKEMessage
					var err error
					if ki < 0 {
						m, err = ike.DecodeDecrypt(b, hdr, nil, roleOf(role))
					} else {
						m, err = ike.DecodeDecrypt(b, hdr, c04SAs()[ki], roleOf(role))
					}
					if err != nil {
						return "", err
					}
					if m == nil {
						return c04Neither, nil
					}
					return univ.Project(m).Canon(), nil
				}, nil})
			}
		}
	}
	// unprotection with incompletely initialised key sets (one of the four direction objects missing)
	for miss := 0; miss < 4; miss++ {
		for _, role := range []bool{true, false} {
			miss, role := miss, role
			ds = append(ds, decoder{fmt.Sprintf("DecodeDecrypt(key lacks %s,initiator=%v)", []string{"Integ_i", "Integ_r", "Encr_i", "Encr_r"}[miss], role), func(b []byte) (string, error) {
				sa, err := univ.NewSA(univ.MakeKeySet(0, 2, 2))
				if err != nil {
					return "", err
				}
				switch miss {
				case 0:
					sa.Integ_i = nil
				case 1:
					sa.Integ_r = nil
				case 2:
					sa.Encr_i = nil
				case 3:
					sa.Encr_r = nil
				}
				// two calls on the same key object: the second must not be affected by the first
				_, _ = ike.DecodeDecrypt(b, nil, sa, roleOf(role))
				m, err := ike.DecodeDecrypt(b, nil, sa, roleOf(role))
				if err != nil {
					return "", err
				}
				return univ.Project(m).Canon(), nil
			}, nil})
		}
	}
	for _, kl := range []int{16, 24, 32} {
		kl := kl
		ds = append(ds, decoder{fmt.Sprintf("AES-CBC-%d.Decrypt", kl*8), func(b []byte) (string, error) {
			cr, err := encr.StrToType(univ.EncrName(kl)).NewCrypto(univ.Pat(kl, 77))
			if err != nil {
				return "", err
			}
			pt, err := cr.Decrypt(b)
			if err != nil {
				return "", err
			}
			return fmt.Sprintf("%x", pt), nil
		}, []byte{0x00, 0x01, 0x0f, 0x10, 0x80, 0xff, 0x11}})
	}
	return ds
}

type c04Case struct {
	Dec string `json:"decoder"`
	B   string `json:"input_hex"`
	Src string `json:"source"`
}

// tryDec runs decoder d on b in three capacity variants and compares the outcomes.
// c04Neither: the decoder returned neither a value nor an error.
const c04Neither = "NEITHER-VALUE-NOR-ERROR"

func tryDec(c *engine.Ctx, d *decoder, b []byte, src string) {
	c.Evals++
	n := len(b)
	exact := make([]byte, n)
	copy(exact, b)
	slack0 := make([]byte, n+96)
	copy(slack0, b)
	slackF := make([]byte, n+96)
	copy(slackF, b)
	for i := n; i < len(slackF); i++ {
		slackF[i] = 0xff
	}
	type out struct {
		v   string
		err bool
		pi  *engine.PanicInfo
	}
	var o [3]out
	for i, in := range [][]byte{exact[:n:n], slack0[:n], slackF[:n]} {
		var v string
		var err error
		pi := engine.Catch(func() { v, err = d.f(in) })
		o[i] = out{v, err != nil, pi}
		c.Transitions++
	}
	cs := func() c04Case { return c04Case{Dec: d.name, B: engine.Hex(b), Src: src} }
	for i := range o {
		if o[i].pi != nil {
			c.Violate(o[i].pi.Sig(), fmt.Sprintf("%s panics on %d octets (%s, capacity variant %d): %s", d.name, n, src, i, o[i].pi.Value), cs())
			return
		}
	}
	if o[0].v == c04Neither {
		c.Violate("neither-value-nor-error/"+d.name, fmt.Sprintf("%s on %d octets (%s) returns a nil message and a nil error", d.name, n, src), cs())
		return
	}
	if o[0] != o[1] || o[0] != o[2] {
		c.Violate("over-read/"+d.name, fmt.Sprintf("%s: outcome depends on memory behind the slice (%s): exact=(%v,%s) zeros=(%v,%s) ff=(%v,%s)", d.name, src,
			o[0].err, trs(o[0].v), o[1].err, trs(o[1].v), o[2].err, trs(o[2].v)), cs())
		return
	}
	if string(exact) != string(b) || string(slack0[:n]) != string(b) {
		c.Note("decoder-wrote-into-its-input:" + d.name)
	}
	// the memory behind the slice is somebody else's (the next payload of the chain, the rest of a receive buffer):
	// it must come back exactly as it was
	for i := n; i < len(slackF); i++ {
		if slackF[i] != 0xff || slack0[i] != 0 {
			c.Violate("write-behind-slice/"+d.name, fmt.Sprintf("%s on %d octets (%s): octet %d behind the end of the slice was overwritten (spare capacity of the caller's buffer)", d.name, n, src, i-n), cs())
			return
		}
	}
	if !o[0].err {
		c.Count("accepted", 1)
		c.DistinctS(d.name + "|" + o[0].v)
	} else {
		c.Count("rejected", 1)
	}
}

func init() {
	engine.Register(&engine.Check{
		ID:    "C04",
		Level: "exploration",
		Rule: "every decoding entry point (message, header, payload chain with every first type, 16 payload bodies, EAP and 5 EAP method bodies, DecodeDecrypt with nil/3 key sets × header nil/parsed × both roles, AES-CBC Decrypt for 3 key sizes) is run on: authentic-but-malformed protected datagrams (genuine checksum over malformed inner chains, impossible pad lengths, unaligned ciphertexts: 84 plaintexts × 6 endings × 3 suites × 2 directions) on which unprotection must still return a value or an error; U-small = all strings up to length n over a 7-symbol per-decoder alphabet; " +
			"U-sweep = every value of every 8-bit size/count field × every remaining-buffer length 0..300 and the boundary set of every 16-bit length field × buffer lengths around it; U-mut = every single-octet replacement (7 values per position), every proper prefix and extensions of every encoding of the message universe and of protected messages; " +
			"Decrypt on all lengths 0..96 with the recovered pad-length octet taking all 256 values. Each input is presented in three capacity variants (exact, zero tail, 0xFF tail); oracle: no panic, identical outcome across variants, CPU-time hang detector. distinct_nontrivial = distinct (decoder, decoded value) pairs among accepted inputs",
		Assumptions: []string{"'work bounded by input length' is decided as termination of every enumerated call well inside a CPU-time budget, not as a complexity proof"},
		Run:         runC04,
		Replay: func(c *engine.Ctx, raw json.RawMessage) {
			var cs c04Case
			unmarshalCase(raw, &cs)
			for _, d := range decoders() {
				if d.name == cs.Dec {
					d := d
					tryDec(c, &d, engine.UnHex(cs.B), cs.Src)
				}
			}
		},
	})
}

func runC04(c *engine.Ctx) {
	ds := decoders()
	byName := map[string]*decoder{}
	for i := range ds {
		byName[ds[i].name] = &ds[i]
	}
	nmax := 6
	if c.Thorough() {
		nmax = 8
	}
	run := func(d *decoder, b []byte, src string) {
		engine.Begin(func() interface{} { return c04Case{Dec: d.name, B: engine.Hex(b), Src: src} })
		tryDec(c, d, b, src)
	}

	// ---- U-small
	for i := range ds {
		d := &ds[i]
		if d.syms == nil {
			continue
		}
		k := len(d.syms)
		// shard on the first two symbols
		var rec func(buf []byte)
		rec = func(buf []byte) {
			if len(buf) == 2 && !c.Mine() {
				return
			}
			run(d, buf, "U-small")
			if len(buf) == nmax {
				return
			}
			for s := 0; s < k; s++ {
				rec(append(append([]byte(nil), buf...), d.syms[s]))
			}
		}
		// lengths 0 and 1 are run by shard 0 only
		if c.Shard == 0 {
			run(d, nil, "U-small")
			for s := 0; s < k; s++ {
				run(d, []byte{d.syms[s]}, "U-small")
			}
		}
		for s := 0; s < k; s++ {
			for t := 0; t < k; t++ {
				rec([]byte{d.syms[s], d.syms[t]})
			}
		}
	}
	c.Count("U-small.max_len", int64(nmax))

	// ---- U-chain: payload chains made of up to three generic headers (next type known / unknown / none, critical
	// flag, announced length 0, 3, 4, 5, 8, 12) with their bodies, for six first-payload types and through the
	// whole-message decoder: a chain walker that treats runs of skipped payloads specially shows here
	{
		nexts := []byte{0, 40, 49, 200}
		flags := []byte{0, 0x80}
		lens := []int{0, 3, 4, 5, 8, 12}
		firsts := []uint8{0, 33, 40, 41, 49, 200}
		chainDec := map[uint8]*decoder{}
		for _, ft := range firsts {
			tt := ft
			chainDec[ft] = &decoder{fmt.Sprintf("Container.Decode(first=%d)", ft), func(b []byte) (string, error) {
				var cc message.IKEPayloadContainer
				if err := cc.Decode(tt, b); err != nil {
					return "", err
				}
				return ref.CanonPayloads(univ.ProjectPayloads(cc)), nil
			}, nil}
		}
		hdrs := make([][]byte, 0, 48)
		for _, n := range nexts {
			for _, f := range flags {
				for _, l := range lens {
					h := []byte{n, f, 0, byte(l)}
					for i := 4; i < l; i++ {
						h = append(h, byte(0x10+i))
					}
					hdrs = append(hdrs, h)
				}
			}
		}
		msgDec := byName["Message.Decode"]
		idx := 0
		for _, h1 := range hdrs {
			for _, h2 := range hdrs {
				idx++
				if !c.Mine() {
					continue
				}
				for k := 0; k <= len(hdrs); k++ {
					b := append(append([]byte(nil), h1...), h2...)
					if k < len(hdrs) {
						if !c.Thorough() && (k+idx)%4 != 0 {
							continue // quick: every pair of headers, every fourth third header
						}
						b = append(b, hdrs[k]...)
					}
					for _, ft := range firsts {
						run(chainDec[ft], b, "U-chain")
					}
					if msgDec != nil && k%6 == 0 {
						m := append([]byte{1, 2, 3, 4, 5, 6, 7, 8, 1, 2, 3, 4, 5, 6, 7, 8, firsts[(idx+k)%len(firsts)], 0x20, 37, 0x08, 0, 0, 0, 1, 0, 0, 0, byte(28 + len(b))}, b...)
						run(msgDec, m, "U-chain")
					}
				}
			}
		}
	}

	// ---- U-sweep
	sweep8(c, byName, run)
	sweep16(c, byName, run)

	// ---- U-mut over the message universe
	msgDec := []*decoder{byName["Message.Decode"], byName["DecodeDecrypt(key=-1,parsedHeader=false,initiator=true)"],
		byName["DecodeDecrypt(key=0,parsedHeader=true,initiator=false)"], byName["ParseHeader"]}
	repl := func(o byte) []byte { return []byte{0, 1, 0x7f, 0x80, 0xff, o + 1, o - 1, o ^ 0x80} }
	mutate := func(b []byte, dd []*decoder, src string) {
		for pos := range b {
			o := b[pos]
			for _, v := range repl(o) {
				if v == o {
					continue
				}
				b[pos] = v
				for _, d := range dd {
					run(d, b, src)
				}
			}
			b[pos] = o
		}
		for l := 0; l < len(b); l++ {
			for _, d := range dd {
				run(d, b[:l], src+"/prefix")
			}
		}
		for e := 1; e <= 16; e++ {
			for _, fill := range []byte{0, 0xff} {
				x := append(append([]byte(nil), b...), univ.Fill(e, fill)...)
				for _, d := range dd {
					run(d, x, src+"/extension")
				}
			}
		}
	}
	depth := 1
	if c.Thorough() {
		depth = 2
	}
	univ.Messages(depth, func(name string, m ref.Msg) {
		if !c.Mine() {
			return
		}
		b, err := ref.Encode(m, ref.Lib{})
		if err != nil {
			return
		}
		if len(b) > 700 && !c.Thorough() {
			// long instances: mutate the first 400 octets and the last 64
			head := append([]byte(nil), b...)
			mutateRange(head, 0, 400, msgDec, run, "U-mut("+dim(name)+")")
			mutateRange(head, len(b)-64, len(b), msgDec, run, "U-mut("+dim(name)+")")
			return
		}
		mutate(b, msgDec, "U-mut("+dim(name)+")")
		// body-level mutation for each payload decoder
		for _, p := range m.P {
			body, err := ref.EncodeBody(p, ref.Lib{})
			if err != nil || len(body) > 400 {
				continue
			}
			if d := bodyDecoder(byName, p.T); d != nil {
				mutate(body, []*decoder{d}, "U-mut-body("+ref.Name(p.T)+")")
				if p.T == ref.PEAP {
					mutate(body, []*decoder{byName["EAP.Unmarshal"]}, "U-mut-body(EAP)")
					if len(body) > 4 {
						for _, n := range []string{"EapIdentity.Unmarshal", "EapNotification.Unmarshal", "EapNak.Unmarshal", "EapExpanded.Unmarshal", "EapAkaPrime.Unmarshal"} {
							mutate(append([]byte(nil), body[4:]...), []*decoder{byName[n]}, "U-mut-body(EAP method)")
						}
					}
				}
			}
		}
	})

	// ---- protected messages: mutations, prefixes, short SK bodies
	protDec := []*decoder{}
	for _, n := range []string{"DecodeDecrypt(key=0,parsedHeader=false,initiator=false)", "DecodeDecrypt(key=0,parsedHeader=true,initiator=true)",
		"DecodeDecrypt(key=1,parsedHeader=false,initiator=false)", "DecodeDecrypt(key=2,parsedHeader=true,initiator=false)", "DecodeDecrypt(key=-1,parsedHeader=false,initiator=true)"} {
		protDec = append(protDec, byName[n])
	}
	for _, d := range ds {
		if len(d.name) > 22 && d.name[:22] == "DecodeDecrypt(key lack" {
			d := d
			protDec = append(protDec, &d)
		}
	}
	al := univ.Alphabet()
	for ai, inst := range al {
		if !(ai%7 == 0 || c.Thorough()) {
			continue
		}
		for k, si := range []int{0, 4, 8} {
			if !c.Mine() {
				continue
			}
			ks := univ.MakeKeySet(si, 2, 2)
			ske, ska := ks.DirKeys(true)
			m := ref.Msg{H: univ.BaseHdr, P: []ref.Payload{inst.P}}
			_, inner, err := ref.EncodeChain(m.P, ref.Lib{})
			if err != nil || len(inner) > 300 {
				continue
			}
			pad := (16 - (len(inner)+1)%16) % 16
			b, err := ref.Protect(ks.Suite, ske, ska, m, ref.Lib{}, univ.Pat(16, 3), univ.Pat(pad, 4))
			if err != nil {
				continue
			}
			_ = k
			for _, d := range protDec {
				run(d, b, "protected(genuine)")
			}
			// the same message from the responder, for receivers acting as initiator
			rske, rska := ks.DirKeys(false)
			if rb, err := ref.Protect(ks.Suite, rske, rska, m, ref.Lib{}, univ.Pat(16, 5), univ.Pat(pad, 6)); err == nil {
				for _, d := range protDec {
					run(d, rb, "protected(genuine, from responder)")
				}
			}
			mutate(b, protDec, "U-mut-protected")
		}
	}
	// authentic but malformed: the checksum is genuine (the peer holds the keys), what it covers is not a message —
	// every malformed inner chain of U-chain, every pad-length octet that is impossible for the ciphertext, ciphertexts
	// that are not block aligned. The unprotection still returns a value or an error.
	if c.Mine() {
		var plains [][]byte
		for _, first := range []byte{0, 33, 40, 41, 48, 200} {
			for _, chain := range [][]byte{{}, {0, 0}, {0, 0, 0}, {0, 0, 0, 3}, {0, 0, 0, 4}, {0, 0, 0, 5, 1}, {0, 0, 0xff, 0xf0, 1, 2, 3, 4}, {40, 0, 0, 8, 1, 2, 3, 4}, {40, 0, 0, 8, 1, 2, 3, 4, 0, 0, 0, 2},
				{0, 0x80, 0, 8, 1, 2, 3, 4}, {200, 0x80, 0, 4, 0, 0, 0, 4}, {0, 0, 0, 4, 9, 9, 9}, {41, 0, 0, 12, 0, 0, 0, 1, 0, 0, 0, 0, 0, 0, 0, 8, 9}, {35, 0, 0, 5, 11}} {
				plains = append(plains, append([]byte{first}, chain...))
			}
		}
		for k, si := range []int{0, 4, 8} {
			ks := univ.MakeKeySet(si, 2, 2)
			for _, senderI := range []bool{true, false} {
				ske, ska := ks.DirKeys(senderI)
				for pi, pl := range plains {
					first, chain := pl[0], pl[1:]
					// pad to a whole number of blocks with a consistent pad-length octet, and with impossible ones
					padded := append([]byte(nil), chain...)
					for (len(padded)+1)%16 != 0 {
						padded = append(padded, byte(pi))
					}
					good := append(append([]byte(nil), padded...), byte(len(padded)-len(chain)))
					for _, last := range []int{int(good[len(good)-1]), len(good) - 1, len(good), 0xff, 0} {
						pt := append([]byte(nil), good...)
						pt[len(pt)-1] = byte(last)
						b := ref.ProtectRaw(ks.Suite, ske, ska, univ.BaseHdr, first, pt, univ.Pat(16, 40+k), -1)
						for _, d := range protDec {
							run(d, b, "authentic-malformed")
						}
					}
					b := ref.ProtectRaw(ks.Suite, ske, ska, univ.BaseHdr, first, good, univ.Pat(16, 44+k), len(good)-3)
					for _, d := range protDec {
						run(d, b, "authentic-not-block-aligned")
					}
				}
			}
		}
	}
	// SK body lengths 0..40 with each key set (shorter than / equal to / longer than the ICV)
	if c.Mine() {
		for l := 0; l <= 64; l++ {
			body := univ.Pat(l, l)
			sk := append([]byte{0, 0}, byte((4+l)>>8), byte(4+l))
			sk = append(sk, body...)
			b := append(ref.EncodeHdr(univ.BaseHdr, ref.PSK, 28+len(sk)), sk...)
			for _, d := range ds {
				if len(d.name) > 13 && d.name[:13] == "DecodeDecrypt" {
					d := d
					run(&d, b, "short-SK-body")
				}
			}
		}
	}

	// ---- cipher: all lengths 0..96, recovered pad-length octet taking all 256 values
	for _, kl := range []int{16, 24, 32} {
		if !c.Mine() {
			continue
		}
		d := byName[fmt.Sprintf("AES-CBC-%d.Decrypt", kl*8)]
		key := univ.Pat(kl, 77)
		for l := 0; l <= 96; l++ {
			run(d, univ.Pat(l, l+1), "cipher-length")
			run(d, univ.Fill(l, 0), "cipher-length")
		}
		for blocks := 1; blocks <= 5; blocks++ {
			for v := 0; v < 256; v++ {
				pt := univ.Pat(16*blocks, v)
				pt[len(pt)-1] = byte(v)
				iv := univ.Pat(16, 9)
				ct := append(append([]byte(nil), iv...), ref.CBCEncrypt(key, iv, pt)...)
				run(d, ct, "cipher-padlen")
			}
		}
	}
	// notes
	keys := make([]string, 0)
	for k := range c.Notes {
		keys = append(keys, k)
	}
	sort.Strings(keys)
}

func mutateRange(b []byte, lo, hi int, dd []*decoder, run func(*decoder, []byte, string), src string) {
	if lo < 0 {
		lo = 0
	}
	if hi > len(b) {
		hi = len(b)
	}
	for pos := lo; pos < hi; pos++ {
		o := b[pos]
		for _, v := range []byte{0, 1, 0x7f, 0x80, 0xff, o + 1, o - 1, o ^ 0x80} {
			if v == o {
				continue
			}
			b[pos] = v
			for _, d := range dd {
				run(d, b, src)
			}
		}
		b[pos] = o
	}
	for l := 0; l < len(b); l += 1 + len(b)/200 {
		for _, d := range dd {
			run(d, b[:l], src+"/prefix")
		}
	}
}

func bodyDecoder(byName map[string]*decoder, t uint8) *decoder {
	n := map[uint8]string{ref.PSA: "SA", ref.PKE: "KE", ref.PIDi: "IDi", ref.PIDr: "IDr", ref.PCERT: "CERT", ref.PCERTREQ: "CERTREQ", ref.PAUTH: "AUTH",
		ref.PNonce: "Nonce", ref.PNotify: "Notify", ref.PDelete: "Delete", ref.PVendor: "Vendor", ref.PTSi: "TSi", ref.PTSr: "TSr", ref.PSK: "SK", ref.PCP: "CP", ref.PEAP: "EAPpayload"}[t]
	return byName[n+".Unmarshal"]
}

// sweep8: every value of every 8-bit size/count field × every remaining-buffer length 0..300.
func sweep8(c *engine.Ctx, dn map[string]*decoder, run func(*decoder, []byte, string)) {
	for v := 0; v < 256; v++ {
		if !c.Mine() {
			continue
		}
		for L := 0; L <= 300; L++ {
			tail := univ.Pat(L, L+v)
			// proposal SPI size; proposal length consistent, one short, payload longer than proposal
			for _, pl := range []int{8 + L, 8 + L - 1, 8, 8 + v} {
				if pl < 0 || pl > 8+L {
					continue
				}
				b := append([]byte{0, 0, byte(pl >> 8), byte(pl), 1, 3, byte(v), 1}, tail...)
				run(dn["SA.Unmarshal"], b, "U-sweep/SA.spisize")
			}
			// Notify SPI size
			run(dn["Notify.Unmarshal"], append([]byte{3, byte(v), 0x40, 0x01}, tail...), "U-sweep/N.spisize")
			// AKA' attribute length, for each reader class
			for _, at := range []byte{1, 2, 3, 11, 23, 24, 134, 4, 255} {
				bits := L * 8
				if L%3 == 1 {
					bits = (v*4 - 4) * 8
				}
				b := append([]byte{50, 1, 0, 0, at, byte(v), byte(bits >> 8), byte(bits)}, tail...)
				run(dn["EapAkaPrime.Unmarshal"], b, "U-sweep/AKA.attrlen")
			}
			if L <= 130 {
				// TS selector count against a buffer of valid selectors cut at L
				var sel []byte
				for i := 0; len(sel) < L; i++ {
					if i%2 == 0 {
						sel = append(sel, 7, 6, 0, 16, 0, 1, 0, 2, 10, 0, 0, 1, 10, 0, 0, 9)
					} else {
						sel = append(sel, append([]byte{8, 17, 0, 40, 0, 3, 0, 4}, univ.Pat(32, i)...)...)
					}
				}
				run(dn["TSi.Unmarshal"], append([]byte{byte(v), 0, 0, 0}, sel[:L]...), "U-sweep/TS.count")
				run(dn["TSr.Unmarshal"], append([]byte{byte(v), 0, 0, 0}, sel[:L]...), "U-sweep/TS.count")
			}
			if L <= 64 {
				for _, cnt := range []int{0, 1, 2, 3, 16, 255, 256, 65535} {
					run(dn["Delete.Unmarshal"], append([]byte{3, byte(v), byte(cnt >> 8), byte(cnt)}, tail...), "U-sweep/D.spisize")
				}
			}
		}
	}
}

var b16 = func() []int {
	var s []int
	for i := 0; i <= 40; i++ {
		s = append(s, i)
	}
	for i := 32766; i <= 32770; i++ {
		s = append(s, i)
	}
	for i := 65520; i <= 65535; i++ {
		s = append(s, i)
	}
	return s
}()

func bufLens(v int) []int {
	seen := map[int]bool{}
	var s []int
	add := func(x int) {
		if x >= 0 && x <= 65600 && !seen[x] {
			seen[x] = true
			s = append(s, x)
		}
	}
	for i := 0; i <= 48; i++ {
		add(i)
	}
	for d := -6; d <= 6; d++ {
		add(v + d)
		add(v + 4 + d)
		add(v + 12 + d)
	}
	return s
}

// sweep16: boundary values of every 16-bit length field × buffer lengths around them.
func sweep16(c *engine.Ctx, dn map[string]*decoder, run func(*decoder, []byte, string)) {
	hi := func(v int) byte { return byte(v >> 8) }
	lo := func(v int) byte { return byte(v) }
	big := univ.Pat(65700, 5)
	for _, v := range b16 {
		if !c.Mine() {
			continue
		}
		for _, L := range bufLens(v) {
			tail := big[:L]
			mk := func(h ...byte) []byte { return append(append([]byte(nil), h...), tail...) }
			// generic payload length (chain walker), first type Nonce and an unsupported type
			run(dn["Container.Decode(first=40)"], mk(0, 0, hi(v), lo(v)), "U-sweep/generic.length")
			run(dn["Container.Decode(first=49)"], mk(40, 0, hi(v), lo(v)), "U-sweep/generic.length")
			// proposal length
			run(dn["SA.Unmarshal"], mk(0, 0, hi(v), lo(v), 1, 1, 0, 1), "U-sweep/SA.proposal.length")
			// transform length inside a proposal that spans the buffer
			pl := 8 + 8 + L
			if pl <= 65535 {
				run(dn["SA.Unmarshal"], mk(0, 0, hi(pl), lo(pl), 1, 1, 0, 1, 0, 0, hi(v), lo(v), 1, 0, 0, 12), "U-sweep/SA.transform.length")
				// TLV attribute length inside a transform that spans the buffer
				tl := 8 + 4 + L
				pl2 := 8 + tl
				if pl2 <= 65535 {
					run(dn["SA.Unmarshal"], mk(0, 0, hi(pl2), lo(pl2), 1, 1, 0, 1, 0, 0, hi(tl), lo(tl), 1, 0, 0, 12, 0, 14, hi(v), lo(v)), "U-sweep/SA.attr.length")
				}
			}
			// CP attribute length
			run(dn["CP.Unmarshal"], mk(1, 0, 0, 0, 0, 1, hi(v), lo(v)), "U-sweep/CP.attr.length")
			// TS selector length
			run(dn["TSi.Unmarshal"], mk(1, 0, 0, 0, 7, 0, hi(v), lo(v)), "U-sweep/TS.selector.length")
			run(dn["TSr.Unmarshal"], mk(1, 0, 0, 0, 8, 0, hi(v), lo(v)), "U-sweep/TS.selector.length")
			// Delete SPI count
			run(dn["Delete.Unmarshal"], mk(3, 4, hi(v), lo(v)), "U-sweep/D.count")
			// EAP length
			run(dn["EAP.Unmarshal"], mk(1, 1, hi(v), lo(v)), "U-sweep/EAP.length")
			// AKA' RES / KDF_INPUT bit length
			for _, at := range []byte{3, 23} {
				run(dn["EapAkaPrime.Unmarshal"], mk(50, 1, 0, 0, at, byte((L+4+3)/4), hi(v), lo(v)), "U-sweep/AKA.bitlen")
			}
			// header length field against the datagram size
			if L >= 0 {
				h := ref.EncodeHdr(univ.BaseHdr, 40, v)
				run(dn["Message.Decode"], append(h, tail...), "U-sweep/header.length")
			}
		}
	}
}
