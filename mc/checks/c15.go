package checks

import (
	"bytes"
	"encoding/json"
	"fmt"
	"sort"

	"github.com/free5gc/ike/eap"

	"verif/mc/engine"
	"verif/mc/ref"
	"verif/mc/univ"
)

// C15 — EAP-AKA' AT_MAC is HMAC-SHA-256-128 over the packet as sent; both ends agree.

type c15Case struct {
	K      string   `json:"k"` // sender | receiver | sensitivity
	Name   string   `json:"name"`
	E      *ref.EAP `json:"eap"`
	KeyLen int      `json:"key_len"`
	KeyPat int      `json:"key_pattern"`
	Prior  int      `json:"prior_mac"` // 0: none set, 1: zeros, 2: garbage
	Wire   string   `json:"wire_hex,omitempty"`
	Pos    int      `json:"pos,omitempty"`
	Xor    int      `json:"xor,omitempty"`
	Prev   string   `json:"prev_wire_hex,omitempty"` // receiver: the packet that was decoded into the same EAP value before this one
}

// c15PrevWire: the packet the receiver side processed before the current one (per worker process).
var c15PrevWire []byte

func c15KeyContent(n, pat int) []byte {
	switch pat {
	case 0:
		return univ.Fill(n, 0)
	case 1:
		return univ.Fill(n, 0xff)
	}
	return univ.Pat(n, 70+pat+n)
}

// c15Key hands the key over in a caller-owned buffer that is refilled in place for every use (one buffer
// per key length): the library must use the key it is given, not a slice it remembered earlier.
func c15Key(n, pat int) []byte { return inCallerBuffer(c15KeyContent(n, pat)) }

func init() {
	engine.Register(&engine.Check{
		ID:    "C15",
		Level: "exploration",
		Rule: "sender: every subset of the settable attributes (with and without AT_MAC, padded and unpadded values, prior AT_MAC absent / zero / garbage) built through the API × keys of length {1,16,31,32,33,64,65,100} × patterns: mac := CalcEapAkaPrimeAtMAC(k); SetAttr(AT_MAC, mac); Marshal; the reference computes HMAC-SHA-256-128 (own HMAC) over the wire bytes with the MAC field zeroed and must agree, independently of the prior AT_MAC value. " +
			"receiver: the library's own wire packets and reference-encoded well-formed packets in every attribute order (all permutations of <= 5 attributes) are decoded and CalcEapAkaPrimeAtMAC(k) must equal the transmitted MAC. sensitivity: every single octet of the wire packet outside the MAC value (⊕0x01, ⊕0x80) that still decodes, and every single-octet change of the key, must change the computed value. " +
			"Sizes: AT_KDF_INPUT of every length 0..1016 on the sender side; on the receiver side packets from the independent encoder whose attribute boundaries fall on every word offset 11..1100 (filler attributes of skippable types, ascending) with two more attributes behind. " +
			"Receiver-side mismatches are attributed (re-serialisation ≠ received octets: order / reserved / padding) before being reported. distinct_nontrivial = distinct (packet, key) pairs on which sender and reference agreed",
		Assumptions: []string{"SHA-256 compression is a shared primitive; the HMAC construction, truncation, MAC-field zeroing and octet coverage are independent"},
		Run:         runC15,
		Replay: func(c *engine.Ctx, raw json.RawMessage) {
			var cs c15Case
			unmarshalCase(raw, &cs)
			switch cs.K {
			case "sender":
				c15Sender(c, cs)
			case "receiver":
				c15Receiver(c, cs, engine.UnHex(cs.Wire))
			case "sensitivity":
				c15Sensitivity(c, cs, engine.UnHex(cs.Wire), cs.Pos, byte(cs.Xor))
			}
		},
	})
}

// c15Foreign: well-formed packets from an independent encoder that carry attributes the library has no
// dedicated reader for (octets 3-4 of such attributes are data, not reserved); attributes in ascending type
// order so that the open order finding does not apply. The receiver must compute the transmitted MAC.
func c15Foreign(c *engine.Ctx) {
	foreign := []ref.AKAAttr{
		{T: 4, V: append([]byte{0x12, 0x34}, univ.Pat(12, 1)...)},              // AT_AUTS: 14 octets of data right after the length octet
		{T: 12, V: []byte{0x80, 0x00}},                                         // AT_NOTIFICATION: 16-bit code
		{T: 14, V: append([]byte{0x00, 0x05}, []byte("user1\x00\x00\x00")...)}, // AT_IDENTITY: actual length + padded identity
		{T: 19, V: []byte{0x00, 0x07}},                                         // AT_COUNTER
		{T: 22, V: []byte{0x00, 0x01}},                                         // AT_CLIENT_ERROR_CODE
		{T: 129, V: append([]byte{0xab, 0xcd}, univ.Pat(16, 2)...)},            // AT_IV
		{T: 135, V: []byte{0xff, 0xff}},                                        // AT_RESULT_IND with non-zero "reserved"
	}
	for mask := 1; mask < 1<<uint(len(foreign)); mask++ {
		if !c.Mine() {
			continue
		}
		var ats []ref.AKAAttr
		ats = append(ats, ref.AKAAttr{T: ref.AtRAND, V: univ.Pat(16, 3)})
		for i, f := range foreign {
			if mask&(1<<uint(i)) != 0 && f.T < ref.AtMAC {
				ats = append(ats, f)
			}
		}
		ats = append(ats, ref.AKAAttr{T: ref.AtMAC, V: make([]byte, 16)})
		for i, f := range foreign {
			if mask&(1<<uint(i)) != 0 && f.T > ref.AtMAC {
				ats = append(ats, f)
			}
		}
		c15RefReceiver(c, &ref.EAP{Code: 1, ID: uint8(mask), Method: 50, Sub: 1, AKA: ats}, fmt.Sprintf("foreign=%07b", mask))
	}
}

// c15Lookalike: attribute values whose aligned words look like attribute headers (in particular like AT_MAC's
// "0b 05 00 00"): a MAC computation that finds its attributes by pattern instead of walking the length fields
// zeroes or covers the wrong octets. Sender and receiver side, every carrier attribute × every header pattern.
func c15Lookalike(c *engine.Ctx) {
	hdrs := [][]byte{{0x0b, 0x05, 0, 0}, {0x0b, 0x05, 0x0b, 0x05}, {0x01, 0x05, 0, 0}, {0x02, 0x05, 0, 0}, {0x03, 0x02, 0, 0x20}, {0x17, 0x02, 0, 0x08}, {0x18, 0x01, 0, 1}, {0x86, 0x06, 0, 0}, {0x0b, 0x01, 0, 0}, {0x32, 0x01, 0, 0}}
	rep := func(h []byte, n int) []byte {
		var o []byte
		for len(o) < n {
			o = append(o, h...)
		}
		return o[:n]
	}
	carriers := []struct {
		t uint8
		n []int
	}{{ref.AtRAND, []int{16}}, {ref.AtAUTN, []int{16}}, {ref.AtRES, []int{4, 8, 16}}, {ref.AtKDFInput, []int{4, 12, 20}}, {ref.AtCheckcode, []int{20, 32}}}
	for hi, h := range hdrs {
		for _, ca := range carriers {
			if !c.Mine() {
				continue
			}
			for _, n := range ca.n {
				for _, others := range [][]ref.AKAAttr{nil, {{T: ref.AtKDF, V: []byte{0, 1}}}, {{T: ref.AtRAND, V: univ.Pat(16, 1)}, {T: ref.AtAUTN, V: univ.Pat(16, 2)}}} {
					var ats []ref.AKAAttr
					for _, o := range others {
						if o.T != ca.t {
							ats = append(ats, o)
						}
					}
					ats = append(ats, ref.AKAAttr{T: ca.t, V: rep(h, n)})
					// offset variant: the look-alike word starts at the second word of the value
					e := &ref.EAP{Code: 1, ID: uint8(hi), Method: 50, Sub: 1, AKA: ats}
					name := fmt.Sprintf("lookalike=%x in at%d", h, ca.t)
					for _, prior := range []int{0, 1, 2} {
						c15Sender(c, c15Case{K: "sender", Name: name, E: e, KeyLen: 32, KeyPat: 2, Prior: prior})
					}
					re := *e
					re.AKA = append(append([]ref.AKAAttr(nil), ats...), ref.AKAAttr{T: ref.AtMAC, V: make([]byte, 16)})
					c15RefReceiver(c, &re, name)
					// AT_MAC first, the carrier after it
					re2 := *e
					re2.AKA = append([]ref.AKAAttr{{T: ref.AtMAC, V: make([]byte, 16)}}, ats...)
					c15RefReceiver(c, &re2, name)
				}
			}
		}
	}
}

// c15SpareWords: a foreign sender may reserve whole zero words behind the value of AT_RES / AT_KDF_INPUT; the
// receiver must still compute the transmitted code (its computation covers the packet as sent).
func c15SpareWords(c *engine.Ctx) {
	for mask := 0; mask < 16; mask++ {
		if !c.Mine() {
			continue
		}
		for _, rl := range []int{4, 7, 8, 16} {
			for _, kl := range []int{0, 5, 12} {
				for spare := 1; spare <= 2; spare++ {
					ats := []ref.AKAAttr{}
					if mask&1 != 0 {
						ats = append(ats, ref.AKAAttr{T: ref.AtRAND, V: univ.Pat(16, 1)})
					}
					if mask&2 != 0 {
						ats = append(ats, ref.AKAAttr{T: ref.AtRES, V: univ.Pat(rl, 3)})
					}
					if mask&4 != 0 {
						ats = append(ats, ref.AKAAttr{T: ref.AtKDFInput, V: univ.Pat(kl, 5)})
					}
					if mask&8 != 0 {
						ats = append(ats, ref.AKAAttr{T: ref.AtKDF, V: []byte{0, 1}})
					}
					if mask&6 == 0 {
						continue
					}
					ats = append(ats, ref.AKAAttr{T: ref.AtMAC, V: make([]byte, 16)})
					e := &ref.EAP{Code: 2, ID: uint8(mask), Method: 50, Sub: 1, AKA: ats}
					wire, err := c14WireBytes(e, 3, 0, spare)
					if err != nil {
						continue
					}
					key := c15Key(32, 2)
					mac, err := ref.AtMACOverWire(key, wire)
					off := macSpan(wire)
					if err != nil || off < 0 {
						continue
					}
					copy(wire[off:], mac)
					c15Receiver(c, c15Case{K: "receiver", Name: fmt.Sprintf("spare-words=%d subset=%04b", spare, mask), E: e, KeyLen: 32, KeyPat: 2}, wire)
				}
			}
		}
	}
}

// c15AllTypes: a received packet may carry any attribute type; the receiver's computation must cover it (the code
// it computes equals the transmitted one). Types in ascending order, so that the known re-serialisation order
// finding does not interfere.
func c15AllTypes(c *engine.Ctx) {
	for t := 0; t < 256; t++ {
		if !c.Mine() {
			continue
		}
		special := false
		for _, st := range ref.AKASettable {
			special = special || int(st) == t
		}
		if special {
			continue
		}
		for _, v := range [][]byte{{0, 0}, {byte(t), 0xa5}, append([]byte{0, 3}, univ.Pat(4, t)...)} {
			ats := []ref.AKAAttr{{T: ref.AtRAND, V: univ.Pat(16, 3)}, {T: uint8(t), V: v}, {T: ref.AtMAC, V: make([]byte, 16)}}
			sort.SliceStable(ats, func(i, j int) bool { return ats[i].T < ats[j].T })
			c15RefReceiver(c, &ref.EAP{Code: 2, ID: uint8(t), Method: 50, Sub: 1, AKA: ats}, fmt.Sprintf("foreign-type=%d", t))
		}
	}
}

// c15Sizes: long attributes and long packets. Sender: AT_KDF_INPUT of every length the setter accepts (0..1016
// octets). Receiver: packets from an independent encoder whose attribute boundaries fall on every word offset up to
// 1100 words (4400 octets) — filler attributes of skippable types, in ascending type order so that the open order
// finding does not apply — with two more attributes behind the boundary.
func c15Sizes(c *engine.Ctx) {
	for n := 0; n <= 1016; n++ {
		if !c.Mine() {
			continue
		}
		e := &ref.EAP{Code: 1, ID: uint8(n), Method: 50, Sub: 1, AKA: []ref.AKAAttr{{T: ref.AtRAND, V: univ.Pat(16, n)}, {T: ref.AtKDF, V: []byte{0, 1}}, {T: ref.AtKDFInput, V: univ.Pat(n, n+1)}}}
		c15Sender(c, c15Case{K: "sender", Name: fmt.Sprintf("kdfinput=%d", n), E: e, KeyLen: 32, KeyPat: 2})
	}
	for total := 11; total <= 1100; total++ {
		if !c.Mine() {
			continue
		}
		c15RefReceiver(c, akaBoundaryPacket(total), fmt.Sprintf("boundary@%d words", total))
	}
}

func runC15(c *engine.Ctx) {
	c15Sizes(c)
	c15Foreign(c)
	c15AllTypes(c)
	c15Lookalike(c)
	c15SpareWords(c)
	vals := map[uint8][]byte{ref.AtRAND: univ.Pat(16, 1), ref.AtAUTN: univ.Pat(16, 2), ref.AtRES: univ.Pat(7, 3), ref.AtMAC: univ.Pat(16, 4),
		ref.AtKDF: {0, 1}, ref.AtKDFInput: univ.Pat(9, 5), ref.AtCheckcode: univ.Pat(20, 6)}
	valsAligned := map[uint8][]byte{ref.AtRAND: univ.Pat(16, 11), ref.AtAUTN: univ.Pat(16, 12), ref.AtRES: univ.Pat(8, 13), ref.AtMAC: univ.Pat(16, 14),
		ref.AtKDF: {0, 1}, ref.AtKDFInput: univ.Pat(12, 15), ref.AtCheckcode: nil}
	keyLens := []int{1, 16, 31, 32, 33, 64, 65, 100}
	if c.Thorough() {
		keyLens = nil
		for n := 1; n <= 130; n++ {
			keyLens = append(keyLens, n)
		}
	}
	for mask := 0; mask < 128; mask++ {
		if !c.Mine() {
			continue
		}
		for vi, vm := range []map[uint8][]byte{vals, valsAligned} {
			var ats []ref.AKAAttr
			for i, t := range ref.AKASettable {
				if mask&(1<<uint(i)) != 0 && t != ref.AtMAC {
					ats = append(ats, ref.AKAAttr{T: t, V: vm[t]})
				}
			}
			e := &ref.EAP{Code: uint8(1 + mask%2), ID: uint8(mask), Method: 50, Sub: uint8([]int{1, 5, 13}[mask%3]), AKA: ats}
			for ki, kl := range keyLens {
				for kp := 0; kp < 3; kp++ {
					if vi == 1 && (ki+kp)%4 != 0 && !c.Thorough() {
						continue
					}
					prior := 0
					if mask&8 != 0 {
						prior = 1 + (ki+kp)%2
					}
					c15Sender(c, c15Case{K: "sender", Name: fmt.Sprintf("subset=%07b", mask), E: e, KeyLen: kl, KeyPat: kp, Prior: prior})
				}
			}
			// receiver: every attribute order, reference-encoded
			withMac := append(append([]ref.AKAAttr(nil), ats...), ref.AKAAttr{T: ref.AtMAC, V: make([]byte, 16)})
			if len(withMac) <= 5 || c.Thorough() && len(withMac) <= 6 {
				permuteAKA(withMac, func(o []ref.AKAAttr) {
					re := *e
					re.AKA = o
					c15RefReceiver(c, &re, fmt.Sprintf("subset=%07b", mask))
				})
			} else {
				for r := 0; r < len(withMac); r++ {
					o := append(append([]ref.AKAAttr(nil), withMac[r:]...), withMac[:r]...)
					re := *e
					re.AKA = o
					c15RefReceiver(c, &re, fmt.Sprintf("subset=%07b", mask))
				}
			}
		}
	}
}

// c15Sender: build through the API, compute, set, marshal; compare with the reference over the wire.
func c15Sender(c *engine.Ctx, cs c15Case) {
	c.Evals++
	key := c15Key(cs.KeyLen, cs.KeyPat)
	build := func(prior int) (*eap.EAP, error) {
		le, err := univ.BuildEAP(cs.E)
		if err != nil {
			return nil, err
		}
		ak := le.EapTypeData.(*eap.EapAkaPrime)
		switch prior {
		case 1:
			err = ak.SetAttr(eap.AT_MAC, make([]byte, 16))
		case 2:
			err = ak.SetAttr(eap.AT_MAC, univ.Pat(16, 99))
		}
		return le, err
	}
	le, err := build(cs.Prior)
	if err != nil {
		c.Violate("sender/build-error", errStr(err), cs)
		return
	}
	if cs.KeyLen == 32 || cs.KeyLen == 33 {
		// the application first tried settings that the setter refuses (for attributes the packet does not hold, and
		// for ones it holds): a refused setting leaves no trace in what is authenticated and sent
		ak := le.EapTypeData.(*eap.EapAkaPrime)
		for _, bad := range []ref.AKAAttr{{T: ref.AtRES, V: univ.Pat(3, 1)}, {T: ref.AtRES, V: univ.Pat(17, 2)}, {T: ref.AtKDF, V: []byte{1}}, {T: ref.AtKDF, V: []byte{0, 1, 2}},
			{T: ref.AtRAND, V: univ.Pat(15, 3)}, {T: ref.AtAUTN, V: univ.Pat(17, 4)}, {T: ref.AtMAC, V: univ.Pat(12, 5)}} {
			present := false
			for _, a := range cs.E.AKA {
				present = present || a.T == bad.T
			}
			if present || (bad.T == ref.AtMAC && cs.Prior != 0) {
				continue
			}
			if ak.SetAttr(eap.EapAkaPrimeAttrType(bad.T), bad.V) == nil {
				// accepted: then it is part of the packet; C14 judges the setter, nothing to say here
				le, _ = build(cs.Prior)
				break
			}
		}
	}
	var mac, wire []byte
	if pi := engine.Catch(func() {
		mac, err = le.CalcEapAkaPrimeAtMAC(key)
		if err == nil {
			err = le.EapTypeData.(*eap.EapAkaPrime).SetAttr(eap.AT_MAC, mac)
		}
		if err == nil {
			wire, err = le.Marshal()
		}
	}); pi != nil {
		c.Violate(pi.Sig(), "sender path panics: "+pi.Value, cs)
		return
	}
	if err != nil {
		c.Violate("sender/error", errStr(err), cs)
		return
	}
	if len(mac) != 16 {
		c.Violate("sender/mac-length", fmt.Sprintf("MAC of %d octets", len(mac)), cs)
		return
	}
	want, rerr := ref.AtMACOverWire(c15KeyContent(cs.KeyLen, cs.KeyPat), wire)
	if rerr != nil {
		c.Violate("sender/wire-malformed", fmt.Sprintf("%v: %x", rerr, trunc(wire, 60)), cs)
		return
	}
	if !bytes.Equal(mac, want) {
		c.Violate("sender/mac-differs-from-rfc", fmt.Sprintf("%s key %d octets prior=%d: library %x, HMAC-SHA-256-128 over the wire with MAC zeroed %x", cs.Name, cs.KeyLen, cs.Prior, mac, want), cs)
		return
	}
	// independent of the previous AT_MAC value
	for prior := 0; prior < 3; prior++ {
		if prior == cs.Prior {
			continue
		}
		o, err := build(prior)
		if err != nil {
			continue
		}
		m2, err := o.CalcEapAkaPrimeAtMAC(key)
		if err != nil || !bytes.Equal(m2, mac) {
			c.Violate("sender/depends-on-prior-mac", fmt.Sprintf("%s: prior AT_MAC state %d gives %x, state %d gives %x", cs.Name, cs.Prior, mac, prior, m2), cs)
			return
		}
	}
	// the caller keeps the returned code (no copy) while the same packet object computes another one (a retry
	// with the key of another context, a verification right after): the code it holds stays what it was
	if _, err := le.CalcEapAkaPrimeAtMAC(c15KeyContent(cs.KeyLen+1, (cs.KeyPat+1)%3)); err == nil && !bytes.Equal(mac, want) {
		c.Violate("sender/held-mac-changed-by-later-call", fmt.Sprintf("%s: the code returned first (%x) reads %x after a second CalcEapAkaPrimeAtMAC on the same packet with another key", cs.Name, want, mac), cs)
		return
	}
	c.Distinct(engine.Hash64(wire, key))
	c.Sample("sender", map[string]interface{}{"name": cs.Name, "key_len": cs.KeyLen, "mac": engine.Hex(mac), "wire": engine.Hex(trunc(wire, 48))})
	// receiver on the library's own wire packet, and sensitivity
	rc := cs
	rc.K = "receiver"
	c15Receiver(c, rc, wire)
	if cs.KeyPat == 2 && (cs.KeyLen == 32 || cs.KeyLen == 65 || (c.Thorough() && cs.KeyLen%16 == 1)) {
		for pos := 0; pos < len(wire); pos++ {
			for _, x := range []byte{0x01, 0x80} {
				sc := cs
				sc.K = "sensitivity"
				c15Sensitivity(c, sc, wire, pos, x)
			}
		}
		// every single-octet change of the key
		for i := range key {
			k2 := append([]byte(nil), key...)
			k2[i] ^= 0x01
			if cs.KeyLen > 64 {
				// keys longer than the block are hashed first: any change matters
			}
			d := new(eap.EAP)
			if d.Unmarshal(wire) != nil {
				break
			}
			m2, err := d.CalcEapAkaPrimeAtMAC(k2)
			c.Evals++
			if err == nil && bytes.Equal(m2, mac) {
				c.Violate("sensitivity/key", fmt.Sprintf("%s: key octet %d changed, MAC unchanged", cs.Name, i), cs)
				return
			}
		}
	}
}

// macSpan returns the offset of the 16 MAC value octets within the packet, or -1.
func macSpan(wire []byte) int {
	if len(wire) < 8 {
		return -1
	}
	sp, err := ref.AKASpans(wire[8:])
	if err != nil {
		return -1
	}
	for _, s := range sp {
		if s.T == ref.AtMAC && s.Len == 20 {
			return 8 + s.Off + 4
		}
	}
	return -1
}

func c15RefReceiver(c *engine.Ctx, e *ref.EAP, name string) {
	key := c15Key(32, 2)
	wire, err := ref.EncodeEAP(e)
	if err != nil {
		return
	}
	mac, err := ref.AtMACOverWire(key, wire)
	off := macSpan(wire)
	if err != nil || off < 0 {
		return
	}
	copy(wire[off:], mac)
	c15Receiver(c, c15Case{K: "receiver", Name: name, E: e, KeyLen: 32, KeyPat: 2}, wire)
}

// attributeMismatch explains why the library's re-serialisation differs from the received octets.
func attributeMismatch(wire, re []byte) string {
	if len(wire) != len(re) {
		return "length"
	}
	sa, ea := ref.AKASpans(wire[8:])
	sb, eb := ref.AKASpans(re[8:])
	if ea != nil || eb != nil || len(sa) != len(sb) {
		return "structure"
	}
	for i := range sa {
		if sa[i].T != sb[i].T {
			return "order"
		}
	}
	for _, s := range sa {
		a, b := wire[8+s.Off:8+s.Off+s.Len], re[8+s.Off:8+s.Off+s.Len]
		if bytes.Equal(a, b) {
			continue
		}
		switch s.T {
		case ref.AtRAND, ref.AtAUTN, ref.AtMAC, ref.AtCheckcode:
			if !bytes.Equal(a[2:4], b[2:4]) {
				return "reserved"
			}
		case ref.AtRES, ref.AtKDFInput:
			n := (int(a[2])<<8 | int(a[3])) / 8
			if 4+n <= len(a) && bytes.Equal(a[:4+n], b[:4+n]) {
				return "padding"
			}
		}
		return "value"
	}
	if !bytes.Equal(wire[:8], re[:8]) {
		return "header"
	}
	return "none"
}

func c15Receiver(c *engine.Ctx, cs c15Case, wire []byte) {
	c.Evals++
	cs.Wire = engine.Hex(wire)
	key := c15Key(cs.KeyLen, cs.KeyPat)
	off := macSpan(wire)
	if off < 0 {
		return
	}
	sent := append([]byte(nil), wire[off:off+16]...)
	d := new(eap.EAP)
	var err error
	var got []byte
	if pi := engine.Catch(func() {
		err = d.Unmarshal(wire)
		if err == nil {
			got, err = d.CalcEapAkaPrimeAtMAC(key)
		}
	}); pi != nil {
		c.Violate(pi.Sig(), "receiver path panics: "+pi.Value, cs)
		return
	}
	if err != nil {
		c.Violate("receiver/error", fmt.Sprintf("%s: %v; wire %x", cs.Name, err, trunc(wire, 60)), cs)
		return
	}
	// a receiver that decodes every packet of a conversation into one EAP value (the previous packet may carry
	// attributes this one lacks) computes what a receiver with a new value computes
	prev := c15PrevWire
	if cs.Prev != "" {
		prev = engine.UnHex(cs.Prev)
	}
	c15PrevWire = append([]byte(nil), wire...)
	if prev != nil {
		cs.Prev = engine.Hex(prev)
		u := new(eap.EAP)
		var got2 []byte
		var err1, err2 error
		if pi := engine.Catch(func() {
			err1 = u.Unmarshal(prev)
			if err2 = u.Unmarshal(wire); err2 == nil {
				got2, err2 = u.CalcEapAkaPrimeAtMAC(key)
			}
		}); pi != nil {
			c.Violate(pi.Sig(), "receiver path on a used EAP value panics: "+pi.Value, cs)
			return
		}
		if err1 == nil && (err2 != nil || !bytes.Equal(got2, got)) {
			c.Violate("receiver/used-eap-value", fmt.Sprintf("%s: decoded into an EAP value that held the previous packet (%x…), the receiver computes %x (%v); decoded into a new value %x", cs.Name, trunc(prev, 24), got2, err2, got), cs)
			return
		}
		c.Count("receiver_on_used_value_agrees", 1)
		cs.Prev = ""
	}
	held := got
	if _, err := d.CalcEapAkaPrimeAtMAC(c15KeyContent(cs.KeyLen+1, (cs.KeyPat+1)%3)); err == nil {
		if g3, err := d.CalcEapAkaPrimeAtMAC(key); err != nil || !bytes.Equal(g3, held) {
			c.Violate("receiver/held-mac-changed-by-later-call", fmt.Sprintf("%s: the code returned first reads %x after a second computation with another key; computed again with the first key: %x", cs.Name, held, g3), cs)
			return
		}
	}
	if bytes.Equal(got, sent) {
		c.Count("receiver_agrees", 1)
		return
	}
	// attribute the mismatch: the library computes over a re-serialisation of the decoded packet
	re, _ := d.Marshal()
	z := append([]byte(nil), wire...)
	for i := off; i < off+16; i++ {
		z[i] = 0
	}
	why := attributeMismatch(z, re)
	if why != "none" {
		c.Violate("receiver/remarshal≠wire/"+why, fmt.Sprintf("%s: transmitted MAC %x, receiver computes %x: the MAC is computed over a re-serialisation that differs from the received octets in %s (received %x, re-serialised %x)", cs.Name, sent, got, why, trunc(z, 48), trunc(re, 48)), cs)
		return
	}
	c.Violate("receiver/mac-differs", fmt.Sprintf("%s: transmitted MAC %x, receiver computes %x although the re-serialisation equals the received octets", cs.Name, sent, got), cs)
}

// c15Sensitivity: a single-octet change of the packet outside the MAC value that still decodes must change the computed MAC.
func c15Sensitivity(c *engine.Ctx, cs c15Case, wire []byte, pos int, x byte) {
	off := macSpan(wire)
	if off < 0 || (pos >= off && pos < off+16) {
		return
	}
	c.Evals++
	cs.Wire, cs.Pos, cs.Xor = engine.Hex(wire), pos, int(x)
	key := c15Key(cs.KeyLen, cs.KeyPat)
	orig := new(eap.EAP)
	if orig.Unmarshal(wire) != nil {
		return
	}
	m1, err := orig.CalcEapAkaPrimeAtMAC(key)
	if err != nil {
		return
	}
	w2 := append([]byte(nil), wire...)
	w2[pos] ^= x
	d := new(eap.EAP)
	var m2 []byte
	if pi := engine.Catch(func() {
		err = d.Unmarshal(w2)
		if err == nil {
			m2, err = d.CalcEapAkaPrimeAtMAC(key)
		}
	}); pi != nil {
		c.Violate(pi.Sig(), "receiver path panics on a modified packet: "+pi.Value, cs)
		return
	}
	if err != nil {
		c.Count("modified_packet_refused", 1)
		return
	}
	if !bytes.Equal(m1, m2) {
		c.Count("modified_packet_changes_mac", 1)
		return
	}
	// classify which kind of octet was changed
	region := "value"
	if pos < 8 {
		region = "header"
	} else if sp, e := ref.AKASpans(wire[8:]); e == nil {
		for _, s := range sp {
			if pos-8 >= s.Off && pos-8 < s.Off+s.Len {
				rel := pos - 8 - s.Off
				switch {
				case rel < 2:
					region = "attr-header"
				case (s.T == ref.AtRAND || s.T == ref.AtAUTN || s.T == ref.AtMAC || s.T == ref.AtCheckcode) && rel < 4:
					region = "reserved"
				case s.T == ref.AtRES || s.T == ref.AtKDFInput:
					n := (int(wire[8+s.Off+2])<<8 | int(wire[8+s.Off+3])) / 8
					if rel >= 4+n {
						region = "padding"
					} else if rel < 4 {
						region = "bitlength"
					}
				}
			}
		}
	}
	c.Violate("sensitivity/unchanged-mac/"+region, fmt.Sprintf("%s: octet %d (%s) of the packet changed (xor %02x), the packet still decodes and the receiver computes the same MAC %x", cs.Name, pos, region, x, m1), cs)
}

// akaBoundaryPacket: a well-formed EAP-AKA' packet (attributes in ascending type order, zero reserved octets in the
// attributes that have them) whose first `total` words of attributes are AT_RAND, AT_MAC and filler attributes of
// skippable types (255 words each at most), followed by two more attributes.
func akaBoundaryPacket(total int) *ref.EAP {
	ats := []ref.AKAAttr{{T: ref.AtRAND, V: univ.Pat(16, total)}, {T: ref.AtMAC, V: make([]byte, 16)}}
	rest := total - 10
	for t := uint8(130); rest > 0; t++ {
		w := rest
		if w > 255 {
			w = 255
		}
		ats = append(ats, ref.AKAAttr{T: t, V: univ.Pat(4*w-2, int(t)+total)})
		rest -= w
	}
	ats = append(ats, ref.AKAAttr{T: 140, V: univ.Pat(6, total)}, ref.AKAAttr{T: 141, V: univ.Pat(2, total+1)})
	return &ref.EAP{Code: 1, ID: uint8(total), Method: 50, Sub: 1, AKA: ats}
}
