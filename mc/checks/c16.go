package checks

import (
	"bytes"
	"encoding/json"
	"fmt"
	"runtime"
	"time"

	"github.com/free5gc/ike/eap"

	"verif/mc/engine"
	"verif/mc/ref"
	"verif/mc/univ"
)

// C16 — EAP-AKA' key hierarchy follows PRF' of RFC 5448 / RFC 9048.

type c16Case struct {
	IK     int      `json:"ik_len"`
	CK     int      `json:"ck_len"`
	ID     int      `json:"identity_len"`
	Pat    int      `json:"identity_pattern"`
	Shift  bool     `json:"shifted_followup"` // a second derivation whose CK'/identity boundary is moved by one octet (same concatenation)
	KeyPat int      `json:"key_pattern,omitempty"` // 0: patterned keys, 1: IK' and CK' all zero, 2: IK' all 0xFF and CK' all zero, 3: IK' all zero
	GC     bool     `json:"held_across_gc,omitempty"`
	Before *c16Case `json:"derivation_before,omitempty"` // the derivation whose results the caller still holds while this one runs
}

// c16Held: the five keys of the previous derivation of this process, still held by the caller.
type c16HeldT struct {
	cs   c16Case
	got  [5][]byte
	want [5][]byte
}

var c16Held *c16HeldT

func c16Identity(n, pat int) []byte {
	switch pat {
	case 0:
		b := make([]byte, n)
		for i := range b {
			b[i] = '0' + byte(i%10)
		}
		return b
	case 1:
		return univ.Fill(n, 0)
	case 2:
		return univ.Fill(n, 0xff)
	case 3: // invalid UTF-8 continuation bytes
		b := make([]byte, n)
		for i := range b {
			b[i] = 0x80 + byte(i%0x40)
		}
		return b
	case 4: // multi-byte UTF-8 (é = c3 a9), possibly cut in the middle
		b := make([]byte, n)
		for i := range b {
			if i%2 == 0 {
				b[i] = 0xc3
			} else {
				b[i] = 0xa9
			}
		}
		return b
	}
	return univ.Pat(n, pat)
}

func init() {
	engine.Register(&engine.Check{
		ID:    "C16",
		Level: "exploration",
		Rule: "all 4096 (|IK'|,|CK'|) pairs in 1..64 × 1..64 × identities {0, 15, 31 octets × patterns} and all identity lengths 0..255 × 6 content patterns (digits, 0x00, 0xFF, invalid UTF-8, multi-byte UTF-8, seeded) × 4 key-length pairs (thorough: the full product of lengths with 3 patterns); plus empty IK'/CK'. The five keys of every derivation are held while the next one (other inputs) runs and compared again afterwards. " +
			"Oracle: the five outputs equal octets 0-15, 16-47, 48-79, 80-143, 144-207 of the reference PRF' (own HMAC over SHA-256); empty key → error. distinct_nontrivial = distinct (lengths, identity) inputs whose five outputs were compared",
		Run: func(c *engine.Ctx) {
			for ik := 0; ik <= 64; ik++ {
				if !c.Mine() {
					continue
				}
				for ck := 0; ck <= 64; ck++ {
					for _, id := range []int{0, 15, 31} {
						evalC16(c, c16Case{IK: ik, CK: ck, ID: id, Pat: (ik + ck + id) % 6})
						evalC16(c, c16Case{IK: ik, CK: ck, ID: id, Pat: 5})
					}
					if c.Thorough() {
						for id := 0; id < 256; id++ {
							evalC16(c, c16Case{IK: ik, CK: ck, ID: id, Pat: id % 3 * 2})
						}
					}
				}
			}
			for kp := 1; kp <= 3; kp++ {
				for _, kl := range [][2]int{{16, 16}, {1, 1}, {1, 64}, {32, 33}, {64, 64}} {
					for _, id := range []int{0, 15, 16, 31} {
						if c.Mine() {
							evalC16(c, c16Case{IK: kl[0], CK: kl[1], ID: id, Pat: 0, KeyPat: kp})
						}
					}
				}
			}
			for id := 0; id < 256; id++ {
				if !c.Mine() {
					continue
				}
				for pat := 0; pat < 6; pat++ {
					for _, kl := range [][2]int{{16, 16}, {1, 64}, {64, 1}, {33, 31}} {
						evalC16(c, c16Case{IK: kl[0], CK: kl[1], ID: id, Pat: pat})
					}
				}
			}
		},
		Replay: func(c *engine.Ctx, raw json.RawMessage) {
			var cs c16Case
			unmarshalCase(raw, &cs)
			c16Held = nil
			if cs.Before != nil {
				evalC16(c, *cs.Before)
				cs.Before = nil
			}
			evalC16(c, cs)
		},
	})
}

func evalC16(c *engine.Ctx, cs c16Case) {
	c.Evals++
	ik, ck := univ.Pat(cs.IK, 100+cs.IK), univ.Pat(cs.CK, 200+cs.CK)
	switch cs.KeyPat {
	case 1: // keys made of zero octets only (a test USIM, a null algorithm)
		ik, ck = univ.Fill(cs.IK, 0), univ.Fill(cs.CK, 0)
	case 2:
		ik, ck = univ.Fill(cs.IK, 0xff), univ.Fill(cs.CK, 0)
	case 3:
		ik, ck = univ.Fill(cs.IK, 0), univ.Pat(cs.CK, 200+cs.CK)
	}
	id := c16Identity(cs.ID, cs.Pat)
	var ke, ka, kr, msk, emsk []byte
	var err error
	pi := engine.Catch(func() { ke, ka, kr, msk, emsk, err = eap.EapAkaPrimePRF(ik, ck, string(id)) })
	if pi != nil {
		c.Violate(pi.Sig(), "EapAkaPrimePRF panics: "+pi.Value, cs)
		return
	}
	if cs.IK == 0 || cs.CK == 0 {
		if err == nil {
			c.Violate("empty-key-accepted", fmt.Sprintf("|IK'|=%d |CK'|=%d gives keys instead of an error", cs.IK, cs.CK), cs)
		} else {
			c.Count("empty_key_refused", 1)
		}
		return
	}
	if err != nil {
		c.Violate("error", errStr(err), cs)
		return
	}
	wke, wka, wkr, wmsk, wemsk := ref.AKAPrimeKeys(ik, ck, id)
	for _, x := range []struct {
		n    string
		g, w []byte
	}{{"K_encr", ke, wke}, {"K_aut", ka, wka}, {"K_re", kr, wkr}, {"MSK", msk, wmsk}, {"EMSK", emsk, wemsk}} {
		if !bytes.Equal(x.g, x.w) {
			c.Violate("key/"+x.n, fmt.Sprintf("|IK'|=%d |CK'|=%d identity %d octets (pattern %d): %s = %x, PRF' gives %x", cs.IK, cs.CK, cs.ID, cs.Pat, x.n, x.g, x.w), cs)
			return
		}
	}
	// the caller still holds the keys of the previous derivation (another subscriber's context): they are what
	// they were
	if h := c16Held; h != nil {
		for i, n := range []string{"K_encr", "K_aut", "K_re", "MSK", "EMSK"} {
			if !bytes.Equal(h.got[i], h.want[i]) {
				y := cs
				y.Before = &h.cs
				c16Held = nil
				c.Violate("key/changed-by-later-derivation/"+n, fmt.Sprintf("%s of the derivation (|IK'|=%d |CK'|=%d identity %d) was correct when returned and reads %x… after the next derivation (|IK'|=%d |CK'|=%d identity %d)", n, h.cs.IK, h.cs.CK, h.cs.ID, trunc(h.got[i], 16), cs.IK, cs.CK, cs.ID), y)
				return
			}
		}
		c.Count("held_across_next_derivation", 1)
	}
	c16Held = &c16HeldT{cs: cs, got: [5][]byte{ke, ka, kr, msk, emsk}, want: [5][]byte{wke, wka, wkr, wmsk, wemsk}}
	c.Distinct(engine.Hash64(ke, emsk))
	c.Sample("prf'", map[string]interface{}{"case": cs, "K_encr": engine.Hex(ke)})
	// the caller keeps the keys: they are still the keys after the collector (and any finalizer) has run
	if cs.GC || (cs.IK*7+cs.CK*3+cs.ID)%89 == 0 {
		for k := 0; k < 3; k++ {
			runtime.GC()
			runtime.Gosched()
			time.Sleep(time.Millisecond)
		}
		for _, x := range []struct {
			n    string
			g, w []byte
		}{{"K_encr", ke, wke}, {"K_aut", ka, wka}, {"K_re", kr, wkr}, {"MSK", msk, wmsk}, {"EMSK", emsk, wemsk}} {
			if !bytes.Equal(x.g, x.w) {
				y := cs
				y.GC = true
				c.Violate("key/changed-while-held/"+x.n, fmt.Sprintf("|IK'|=%d |CK'|=%d identity %d octets: %s was correct when returned and reads %x after garbage collections", cs.IK, cs.CK, cs.ID, x.n, trunc(x.g, 16)), y)
				return
			}
		}
		c.Count("held_across_gc", 1)
	}
	// related second derivation in the same process: the last CK' octet moves into the identity, so that
	// IK'|CK'|identity is the same octet string with a different boundary (a memo keyed without separators)
	if cs.CK >= 2 && (cs.Shift || (cs.IK+cs.CK+cs.ID)%5 == 0) {
		c.Evals++
		ck2 := ck[:len(ck)-1]
		id2 := append([]byte{ck[len(ck)-1]}, id...)
		ke2, ka2, kr2, msk2, emsk2, err := eap.EapAkaPrimePRF(ik, ck2, string(id2))
		w1, w2, w3, w4, w5 := ref.AKAPrimeKeys(ik, ck2, id2)
		if err != nil || !bytes.Equal(ke2, w1) || !bytes.Equal(ka2, w2) || !bytes.Equal(kr2, w3) || !bytes.Equal(msk2, w4) || !bytes.Equal(emsk2, w5) {
			x := cs
			x.Shift = true
			c.Violate("key/after-related-derivation", fmt.Sprintf("|IK'|=%d |CK'|=%d identity %d: the derivation with the CK'/identity boundary moved by one octet, made after the original one, does not match PRF' (err=%v)", cs.IK, cs.CK-1, cs.ID+1, err), x)
		}
	}
}
