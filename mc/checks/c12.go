package checks

import (
	"bytes"
	"encoding/json"
	"fmt"
	"sort"

	"github.com/free5gc/ike/eap"
	"github.com/free5gc/ike/message"

	"verif/mc/engine"
	"verif/mc/ref"
	"verif/mc/univ"
)

// C12 — re-encoding a decoded message preserves its meaning (decode/encode is stable).

type c12Case struct {
	Level string `json:"level"` // msg | eap
	B     string `json:"input_hex"`
	Src   string `json:"source"`
}

func init() {
	engine.Register(&engine.Check{
		ID:    "C12",
		Level: "exploration",
		Rule: "accepted inputs among: U-mut = every single-octet replacement (8 values per position), every proper prefix and short extensions of every encoding of the message universe; U-small = all payload bodies up to length n over a 7-symbol per-kind alphabet, wrapped into a datagram; every reference liberal encoding (single liberties and all together, transform permutations); the same at EAP packet level. " +
			"For each accepted input: m1 = Decode(b); if Encode(m1) = b2 succeeds then Decode(b2) succeeds, projections equal, Encode(m2) = b2; if b is canonical (strict reference parser accepts it, the reference encoder reproduces it, transforms ascending by type, EAP-AKA' attributes ascending and unique) then b2 = b. distinct_nontrivial = distinct accepted inputs that re-encoded",
		Assumptions: []string{"'coverage-guided fuzz inputs' of the quantifier are replaced by exhaustive mutation neighbourhoods and small-alphabet strings (DESIGN 9)",
			"canonical includes ascending transform-type order and ascending unique EAP-AKA' attribute order: the library's data model holds per-type lists and a map and cannot preserve other orders (DESIGN C12)"},
		Run: runC12,
		Replay: func(c *engine.Ctx, raw json.RawMessage) {
			var cs c12Case
			unmarshalCase(raw, &cs)
			evalC12(c, cs.Level, engine.UnHex(cs.B), cs.Src)
		},
	})
}

func isCanonical(b []byte) bool {
	m, _, err := ref.Parse(b, true)
	if err != nil {
		return false
	}
	for _, p := range m.P {
		if !ref.Supported(p.T) || p.T == ref.PSK {
			return false
		}
		if p.T == ref.PSA {
			for _, pr := range p.SA {
				if !sort.SliceIsSorted(pr.Tr, func(i, j int) bool { return pr.Tr[i].Type < pr.Tr[j].Type }) {
					return false
				}
				for _, t := range pr.Tr {
					if t.Type < 1 || t.Type > 5 {
						return false // not representable in the data model
					}
				}
			}
		}
		if p.T == ref.PEAP && p.EAP != nil && p.EAP.Method == 50 {
			for i := 1; i < len(p.EAP.AKA); i++ {
				if p.EAP.AKA[i-1].T >= p.EAP.AKA[i].T {
					return false
				}
			}
		}
	}
	b2, err := ref.Encode(m, ref.Lib{})
	return err == nil && bytes.Equal(b, b2)
}

func evalC12(c *engine.Ctx, level string, b []byte, src string) {
	c.Evals++
	cs := func() c12Case { return c12Case{Level: level, B: engine.Hex(b), Src: src} }
	if level == "eap" {
		e1 := new(eap.EAP)
		var err error
		if pi := engine.Catch(func() { err = e1.Unmarshal(b) }); pi != nil || err != nil || len(b) == 0 {
			c.Count("not_accepted", 1)
			return
		}
		var b2 []byte
		if pi := engine.Catch(func() { b2, err = e1.Marshal() }); pi != nil || err != nil {
			c.Count("accepted_but_reencode_fails(vacuous)", 1)
			return
		}
		c.Transitions += 2
		e2 := new(eap.EAP)
		if pi := engine.Catch(func() { err = e2.Unmarshal(b2) }); pi != nil {
			c.Violate(pi.Sig(), "EAP re-decode panics: "+pi.Value, cs())
			return
		}
		if err != nil {
			c.Violate("eap/reencode-rejected/"+eapMethodName(e1), fmt.Sprintf("%s: %x decodes, re-encodes to %x, which is refused: %s", src, trunc(b, 60), trunc(b2, 60), errStr(err)), cs())
			return
		}
		p1, p2 := univ.ProjectEAP(e1).Canon(), univ.ProjectEAP(e2).Canon()
		if p1 != p2 {
			c.Violate("eap/meaning-changed/"+eapMethodName(e1), fmt.Sprintf("%s: %s became %s", src, trs(p1), trs(p2)), cs())
			return
		}
		var b3 []byte
		engine.Catch(func() { b3, err = e2.Marshal() })
		if err != nil || !bytes.Equal(b3, b2) {
			c.Violate("eap/no-fixed-point/"+eapMethodName(e1), fmt.Sprintf("%s: second encoding %x differs from first %x", src, trunc(b3, 60), trunc(b2, 60)), cs())
			return
		}
		if pe, err := ref.ParseEAP(b); err == nil {
			if rb, err := ref.EncodeEAP(pe); err == nil && bytes.Equal(rb, b) && akaAscending(pe) && !bytes.Equal(b2, b) {
				c.Violate("eap/canonical-not-preserved/"+eapMethodName(e1), fmt.Sprintf("%s: canonical %x re-encodes to %x", src, trunc(b, 60), trunc(b2, 60)), cs())
				return
			}
		}
		c.Distinct(engine.Hash64(b))
		c.Traces++
		return
	}
	m1, err, pi := decodeLib(b)
	if pi != nil || err != nil {
		c.Count("not_accepted", 1)
		return
	}
	var b2 []byte
	if pi := engine.Catch(func() { b2, err = m1.Encode() }); pi != nil || err != nil {
		c.Count("accepted_but_reencode_fails(vacuous)", 1)
		if pi != nil {
			c.Note("encode-panics-on-decoded-value:" + pi.Sig())
		}
		return
	}
	c.Transitions += 2
	pr1 := univ.Project(m1)
	m2, err, pi := decodeLib(b2)
	if pi != nil {
		c.Violate(pi.Sig(), "re-decode panics: "+pi.Value, cs())
		return
	}
	who := func() string {
		// the first payload kind whose solo re-encoding misbehaves
		for _, p := range pr1.P {
			return ref.Name(p.T)
		}
		return "(empty)"
	}
	if err != nil {
		c.Violate("reencode-rejected/"+culpritC12(m1), fmt.Sprintf("%s: input decodes to %s, re-encodes, and the re-encoding is refused: %s", src, trs(pr1.Canon()), errStr(err)), cs())
		return
	}
	pr2 := univ.Project(m2)
	if pr1.Canon() != pr2.Canon() {
		d := "header"
		if pr1.H == pr2.H {
			d = ref.FirstDiff(pr1.P, pr2.P)
		}
		c.Violate("meaning-changed/"+d, fmt.Sprintf("%s: %s became %s", src, trs(pr1.Canon()), trs(pr2.Canon())), cs())
		return
	}
	var b3 []byte
	if pi := engine.Catch(func() { b3, err = m2.Encode() }); pi != nil || err != nil || !bytes.Equal(b3, b2) {
		c.Violate("no-fixed-point/"+who(), fmt.Sprintf("%s: second encoding differs from the first (err=%v)", src, err), cs())
		return
	}
	if isCanonical(b) {
		c.Count("canonical_inputs", 1)
		if !bytes.Equal(b2, b) {
			c.Violate("canonical-not-preserved/"+firstDiffKind(b, b2, pr1), fmt.Sprintf("%s: canonical datagram %x re-encodes to %x", src, trunc(b, 80), trunc(b2, 80)), cs())
			return
		}
	}
	c.Distinct(engine.Hash64(b))
	c.Traces++
	c.Sample(dim(src), map[string]string{"input": engine.Hex(trunc(b, 80)), "reencoded": engine.Hex(trunc(b2, 80))})
}

func akaAscending(e *ref.EAP) bool {
	if e.Method != 50 {
		return true
	}
	for i := 1; i < len(e.AKA); i++ {
		if e.AKA[i-1].T >= e.AKA[i].T {
			return false
		}
	}
	return true
}

func eapMethodName(e *eap.EAP) string {
	if e.EapTypeData == nil {
		return "none"
	}
	return fmt.Sprintf("method%d", uint8(e.EapTypeData.Type()))
}

// culpritC12 names the first payload kind of m whose own encoding is refused by the decoder.
func culpritC12(m *message.IKEMessage) string {
	for _, p := range m.Payloads {
		c := message.IKEPayloadContainer{p}
		var b []byte
		var err error
		if pi := engine.Catch(func() { b, err = c.Encode() }); pi != nil || err != nil {
			continue
		}
		var d message.IKEPayloadContainer
		if pi := engine.Catch(func() { err = d.Decode(uint8(p.Type()), b) }); pi != nil || err != nil {
			return ref.Name(uint8(p.Type()))
		}
	}
	return "chain"
}

func firstDiffKind(b, b2 []byte, pr ref.Msg) string {
	// locate the payload that contains the first differing octet
	off := 0
	for off < len(b) && off < len(b2) && b[off] == b2[off] {
		off++
	}
	if off < 28 {
		return "header"
	}
	pos := 28
	for _, p := range pr.P {
		if pos+4 > len(b) {
			break
		}
		l := int(b[pos+2])<<8 | int(b[pos+3])
		if off < pos+l {
			return ref.Name(p.T)
		}
		pos += l
	}
	return "tail"
}

func runC12(c *engine.Ctx) {
	run := func(level string, b []byte, src string) {
		engine.Begin(func() interface{} { return c12Case{Level: level, B: engine.Hex(b), Src: src} })
		evalC12(c, level, b, src)
	}
	repl := func(o byte) []byte { return []byte{0, 1, 0x7f, 0x80, 0xff, o + 1, o - 1, o ^ 0x80} }
	mutate := func(level string, b []byte, src string, maxPos int) {
		run(level, b, src)
		x := append([]byte(nil), b...)
		for pos := range x {
			if pos >= maxPos && pos < len(x)-32 {
				continue
			}
			o := x[pos]
			for _, v := range repl(o) {
				if v != o {
					x[pos] = v
					run(level, x, src)
				}
			}
			x[pos] = o
		}
		for l := 0; l < len(b) && l < maxPos; l++ {
			run(level, b[:l], src+"/prefix")
		}
		for e := 1; e <= 8; e++ {
			run(level, append(append([]byte(nil), b...), univ.Fill(e, 0)...), src+"/extension")
		}
	}
	// long EAP-AKA' packets from the independent encoder: attribute boundaries on every word offset up to 1100 words,
	// filler attributes straddling every power-of-two offset (a reader that works through a fixed-size buffer)
	for total := 11; total <= 1100; total++ {
		if !c.Mine() {
			continue
		}
		if eb, err := ref.EncodeEAP(akaBoundaryPacket(total)); err == nil {
			run("eap", eb, fmt.Sprintf("aka-boundary@%d words", total))
		}
	}
	// packets with repeated attributes (one AT_KDF per offered key derivation function, repeated skippable ones), at
	// EAP level and inside a message
	if c.Mine() {
		for _, b := range c20ForeignAKA() {
			run("msg", b, "aka-repeated-or-foreign")
			if len(b) > 32 {
				run("eap", b[32:], "aka-repeated-or-foreign")
			}
		}
	}
	depth := 1
	if c.Thorough() {
		depth = 2
	}
	univ.Messages(depth, func(name string, m ref.Msg) {
		if !c.Mine() {
			return
		}
		for _, lv := range liberties(m, true) {
			b, err := ref.Encode(m, lv.l)
			if err != nil {
				continue
			}
			if lv.name == "none" || lv.name == "all" {
				mutate("msg", b, "U-mut("+name+","+lv.name+")", 500)
			} else {
				run("msg", b, "liberal("+lv.name+")")
			}
		}
		for _, pm := range transformOrders(m) {
			if b, err := ref.Encode(pm, ref.Lib{}); err == nil {
				run("msg", b, "liberal(transform-order)")
			}
		}
		for _, p := range m.P {
			if p.T == ref.PEAP {
				if eb, err := ref.EncodeEAP(p.EAP); err == nil {
					mutate("eap", eb, "U-mut-eap("+name+")", 400)
					// every attribute order for EAP-AKA'
					if p.EAP.Method == 50 && len(p.EAP.AKA) >= 2 && len(p.EAP.AKA) <= 5 {
						permuteAKA(p.EAP.AKA, func(o []ref.AKAAttr) {
							e := *p.EAP
							e.AKA = o
							if eb, err := ref.EncodeEAP(&e); err == nil {
								run("eap", eb, "aka-order")
							}
						})
					}
				}
			}
		}
	})
	// payload bodies from the size / count sweeps (SPI sizes and counts that no builder produces, attribute lengths,
	// selector counts against cut buffers), each wrapped into a one-payload message
	{
		ptype := map[string]uint8{"SA.Unmarshal": ref.PSA, "Notify.Unmarshal": ref.PNotify, "TSi.Unmarshal": ref.PTSi, "TSr.Unmarshal": ref.PTSr, "Delete.Unmarshal": ref.PDelete, "EapAkaPrime.Unmarshal": ref.PEAP}
		dn := map[string]*decoder{}
		for n := range ptype {
			dn[n] = &decoder{name: n}
		}
		seen := map[uint64]bool{}
		n := 0
		sweep8(c, dn, func(d *decoder, body []byte, src string) {
			if d == nil {
				return
			}
			n++
			// quick: the small sizes and counts in full, a slice of the rest
			if !c.Thorough() && len(body) >= 2 && body[1] > 20 && body[1] != 255 && n%7 != 0 {
				return
			}
			if d.name == "EapAkaPrime.Unmarshal" {
				body = append([]byte{1, 1, byte((4 + len(body)) >> 8), byte(4 + len(body))}, body...)
			}
			h := engine.Hash64([]byte(d.name), body)
			if seen[h] || len(body)+32 > 0xffff {
				return
			}
			seen[h] = true
			pl := 4 + len(body)
			total := 28 + pl
			m := []byte{1, 2, 3, 4, 5, 6, 7, 8, 1, 2, 3, 4, 5, 6, 7, 9, ptype[d.name], 0x20, 37, 0x08, 0, 0, 0, 2, byte(total >> 24), byte(total >> 16), byte(total >> 8), byte(total), 0, 0, byte(pl >> 8), byte(pl)}
			run("msg", append(m, body...), "U-sweep("+d.name+")")
		})
	}
	// chains with an SK payload at every position and unsupported (non-critical) payloads around it:
	// what the decoder skips must not change what the encoder links
	al := univ.Alphabet()
	skp := ref.Payload{T: ref.PSK, Data: univ.Pat(40, 7)}
	for ai := 0; ai < len(al); ai += 3 {
		if !c.Mine() {
			continue
		}
		a, b := al[ai].P, al[(ai*5+2)%len(al)].P
		for _, ut := range []uint8{1, 32, 49, 99, 200, 255} {
			u := ref.Payload{T: ut, Data: univ.Pat(int(ut)%7, 3)}
			for _, chain := range [][]ref.Payload{{skp, u, a}, {skp, u, u, a, b}, {a, skp, u, b}, {u, skp, a}, {a, u, skp}, {skp, a, u}, {a, u, b, u}, {u, a}, {skp, u}} {
				if wb, err := ref.Encode(ref.Msg{H: univ.BaseHdr, P: chain}, ref.Lib{}); err == nil {
					run("msg", wb, "sk+unsupported-chain")
				}
			}
		}
	}
	// EAP-AKA' attributes of every type code (also those the library has no dedicated reader for), with
	// octets 2-3 looking like a length, a bit length or reserved zeros
	for t := 0; t < 256; t++ {
		if !c.Mine() {
			continue
		}
		for words := 1; words <= 4; words++ {
			for _, h := range [][2]byte{{0, 0}, {0, 1}, {0, 5}, {0, 8}, {0, 40}, {0xff, 0xff}} {
				for fill := 0; fill < 2; fill++ {
					body := append([]byte{h[0], h[1]}, univ.Fill(4*words-4, 0)...)
					if fill == 1 {
						copy(body[2:], univ.Pat(4*words-4, t+words))
						if n := int(h[1]); h[0] == 0 && n > 0 && 2+n < len(body) {
							for i := 2 + n; i < len(body); i++ {
								body[i] = 0 // zero padding after an "actual length" worth of octets
							}
						}
					}
					at := append([]byte{byte(t), byte(words)}, body...)
					pkt := append([]byte{1, 9, 0, byte(8 + len(at) + 4), 50, 1, 0, 0}, at...)
					pkt = append(pkt, 24, 1, 0, 1) // a following AT_KDF shows mis-framing
					run("eap", pkt, "aka-attr-type")
				}
			}
		}
	}
	// field sweeps: canonical encodings only (byte identity)
	univ.Sweeps(c.Thorough(), func(name string, m ref.Msg, fits bool) {
		if !fits || !c.Mine() {
			return
		}
		if b, err := ref.Encode(m, ref.Lib{}); err == nil {
			run("msg", b, "canonical("+dim(name)+")")
		}
	})
	// U-small bodies wrapped into a datagram
	nmax := 5
	if c.Thorough() {
		nmax = 7
	}
	for _, d := range decoders() {
		var t uint8
		switch d.name {
		case "SA.Unmarshal":
			t = ref.PSA
		case "KE.Unmarshal":
			t = ref.PKE
		case "IDi.Unmarshal":
			t = ref.PIDi
		case "CERT.Unmarshal":
			t = ref.PCERT
		case "AUTH.Unmarshal":
			t = ref.PAUTH
		case "Notify.Unmarshal":
			t = ref.PNotify
		case "Delete.Unmarshal":
			t = ref.PDelete
		case "TSi.Unmarshal":
			t = ref.PTSi
		case "TSr.Unmarshal":
			t = ref.PTSr
		case "CP.Unmarshal":
			t = ref.PCP
		case "EAPpayload.Unmarshal":
			t = ref.PEAP
		case "EapAkaPrime.Unmarshal":
			t = 250 // wrapped below as an EAP packet
		default:
			continue
		}
		k := len(d.syms)
		var rec func(buf []byte)
		rec = func(buf []byte) {
			if len(buf) == 2 && !c.Mine() {
				return
			}
			if t == 250 {
				eb := append([]byte{1, 7, byte((4 + len(buf)) >> 8), byte(4 + len(buf))}, buf...)
				run("eap", eb, "U-small(AKA)")
			} else {
				body := buf
				b := ref.EncodeHdr(univ.BaseHdr, t, 28+4+len(body))
				b = append(b, 0, 0, byte((4+len(body))>>8), byte(4+len(body)))
				b = append(b, body...)
				run("msg", b, "U-small("+ref.Name(t)+")")
			}
			if len(buf) == nmax {
				return
			}
			for s := 0; s < k; s++ {
				rec(append(append([]byte(nil), buf...), d.syms[s]))
			}
		}
		for s := 0; s < k; s++ {
			for u := 0; u < k; u++ {
				rec([]byte{d.syms[s], d.syms[u]})
			}
		}
	}
}

func permuteAKA(a []ref.AKAAttr, f func([]ref.AKAAttr)) {
	x := append([]ref.AKAAttr(nil), a...)
	var rec func(k int)
	rec = func(k int) {
		if k == len(x) {
			f(append([]ref.AKAAttr(nil), x...))
			return
		}
		for i := k; i < len(x); i++ {
			x[k], x[i] = x[i], x[k]
			rec(k + 1)
			x[k], x[i] = x[i], x[k]
		}
	}
	rec(0)
}
