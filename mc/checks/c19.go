package checks

import (
	"encoding/json"
	"fmt"

	"github.com/free5gc/ike/eap"
	"github.com/free5gc/ike/message"

	"verif/mc/engine"
	"verif/mc/ref"
	"verif/mc/univ"
)

// C19 — constructors and builders yield exactly the specified payloads, 3GPP ones too.

type c19Case struct {
	K    string `json:"k"` // seq | header
	Hist []int  `json:"history"`
	Op   int    `json:"op"`
	Args []int  `json:"args,omitempty"`
}

type c19Op struct {
	name   string
	apply  func(c *message.IKEPayloadContainer) error
	expect []ref.Payload // payloads that must be appended (empty: none)
	over   bool          // oversize argument: an error at build or at encode, never a truncated field
}

func notify3gpp(t uint16, data []byte) ref.Payload {
	return ref.Payload{T: ref.PNotify, B: 0, NType: t, Data: data}
}

func qosData(pdu uint8, qfi []uint8, isDefault, isDSCP bool, dscp uint8) []byte {
	d := []byte{0, pdu, byte(len(qfi))}
	d = append(d, qfi...)
	var f byte
	if isDSCP {
		f |= 0x01 // DSCPI
	}
	if isDefault {
		f |= 0x02 // DCSI
	}
	d = append(d, f)
	if isDSCP {
		d = append(d, dscp)
	}
	d[0] = byte(len(d))
	return d
}

func u8s(n, seed int) []uint8 { return univ.Pat(n, seed) }

// The caller's argument buffers: every octet string (and SPI list) handed to a builder lives in a buffer of the
// caller with spare capacity behind it, and the caller overwrites the whole buffer as soon as the builder has
// returned (one scratch buffer refilled for the next payload). What was built must not change with it.
var c19HeldB [][]byte
var c19HeldU [][]uint32

func ca(b []byte) []byte {
	if b == nil {
		return nil
	}
	x := make([]byte, len(b), len(b)+8)
	copy(x, b)
	c19HeldB = append(c19HeldB, x)
	return x
}

func cu(s []uint32) []uint32 {
	x := make([]uint32, len(s), len(s)+2)
	copy(x, s)
	c19HeldU = append(c19HeldU, x)
	return x
}

func c19ScribbleArgs() {
	for _, x := range c19HeldB {
		x = x[:cap(x)]
		for i := range x {
			x[i] ^= 0xff
		}
	}
	for _, x := range c19HeldU {
		x = x[:cap(x)]
		for i := range x {
			x[i] ^= 0xffffffff
		}
	}
	c19HeldB, c19HeldU = nil, nil
}

// c19Ops is the builder alphabet used for sequences (every Build* function, representative arguments).
func c19Ops() []c19Op {
	var ops []c19Op
	add := func(name string, f func(c *message.IKEPayloadContainer) error, exp ...ref.Payload) {
		ops = append(ops, c19Op{name: name, apply: func(c *message.IKEPayloadContainer) error {
			err := f(c)
			c19ScribbleArgs()
			return err
		}, expect: exp})
	}
	ok := func(f func(c *message.IKEPayloadContainer)) func(c *message.IKEPayloadContainer) error {
		return func(c *message.IKEPayloadContainer) error { f(c); return nil }
	}
	add("BuildNotification(spi4,data)", ok(func(c *message.IKEPayloadContainer) {
		c.BuildNotification(3, 16393, ca(univ.Pat(4, 1)), ca(univ.Pat(9, 2)))
	}),
		ref.Payload{T: ref.PNotify, B: 3, NType: 16393, SPI: univ.Pat(4, 1), Data: univ.Pat(9, 2)})
	add("BuildNotification(nil,nil)", ok(func(c *message.IKEPayloadContainer) { c.BuildNotification(0, 1, nil, nil) }), ref.Payload{T: ref.PNotify, B: 0, NType: 1})
	add("BuildCertificate", ok(func(c *message.IKEPayloadContainer) { c.BuildCertificate(4, ca(univ.Pat(33, 3))) }), ref.Payload{T: ref.PCERT, B: 4, Data: univ.Pat(33, 3)})
	add("BuildEncrypted", ok(func(c *message.IKEPayloadContainer) { c.BuildEncrypted(message.TypeIDi, ca(univ.Pat(48, 4))) }), ref.Payload{T: ref.PSK, B: ref.PIDi, Data: univ.Pat(48, 4)})
	add("BUildKeyExchange", ok(func(c *message.IKEPayloadContainer) { c.BUildKeyExchange(14, ca(univ.Pat(256, 5))) }), ref.Payload{T: ref.PKE, Group: 14, Data: univ.Pat(256, 5)})
	add("BuildIdentificationInitiator", ok(func(c *message.IKEPayloadContainer) { c.BuildIdentificationInitiator(2, ca([]byte("ue@nai"))) }), ref.Payload{T: ref.PIDi, B: 2, Data: []byte("ue@nai")})
	add("BuildIdentificationResponder", ok(func(c *message.IKEPayloadContainer) { c.BuildIdentificationResponder(1, ca([]byte{10, 0, 0, 1})) }), ref.Payload{T: ref.PIDr, B: 1, Data: []byte{10, 0, 0, 1}})
	add("BuildAuthentication", ok(func(c *message.IKEPayloadContainer) { c.BuildAuthentication(2, ca(univ.Pat(20, 6))) }), ref.Payload{T: ref.PAUTH, B: 2, Data: univ.Pat(20, 6)})
	add("BuildConfiguration+2attr", ok(func(c *message.IKEPayloadContainer) {
		cp := c.BuildConfiguration(1)
		cp.ConfigurationAttribute.BuildConfigurationAttribute(1, nil)
		cp.ConfigurationAttribute.BuildConfigurationAttribute(0x7fff, ca(univ.Pat(16, 7)))
	}), ref.Payload{T: ref.PCP, B: 1, CP: []ref.CPAttr{{Type: 1}, {Type: 0x7fff, Val: univ.Pat(16, 7)}}})
	add("BuildNonce(32)", ok(func(c *message.IKEPayloadContainer) { c.BuildNonce(ca(univ.Pat(32, 8))) }), ref.Payload{T: ref.PNonce, Data: univ.Pat(32, 8)})
	add("BuildNonce(nil)", ok(func(c *message.IKEPayloadContainer) { c.BuildNonce(nil) }), ref.Payload{T: ref.PNonce})
	add("BuildTrafficSelectorInitiator+v4v6", ok(func(c *message.IKEPayloadContainer) {
		ts := c.BuildTrafficSelectorInitiator()
		ts.TrafficSelectors.BuildIndividualTrafficSelector(7, 6, 80, 443, ca([]byte{10, 0, 0, 1}), ca([]byte{10, 0, 0, 9}))
		ts.TrafficSelectors.BuildIndividualTrafficSelector(8, 17, 1, 65535, ca(univ.Pat(16, 9)), ca(univ.Pat(16, 10)))
	}), ref.Payload{T: ref.PTSi, TS: []ref.Selector{{Type: 7, Proto: 6, SPort: 80, EPort: 443, SAddr: []byte{10, 0, 0, 1}, EAddr: []byte{10, 0, 0, 9}},
		{Type: 8, Proto: 17, SPort: 1, EPort: 65535, SAddr: univ.Pat(16, 9), EAddr: univ.Pat(16, 10)}}})
	add("BuildTrafficSelectorResponder+v4", ok(func(c *message.IKEPayloadContainer) {
		ts := c.BuildTrafficSelectorResponder()
		ts.TrafficSelectors.BuildIndividualTrafficSelector(7, 0, 0, 65535, ca([]byte{0, 0, 0, 0}), ca([]byte{255, 255, 255, 255}))
	}), ref.Payload{T: ref.PTSr, TS: []ref.Selector{{Type: 7, SPort: 0, EPort: 65535, SAddr: []byte{0, 0, 0, 0}, EAddr: []byte{255, 255, 255, 255}}}})
	add("BuildTrafficSelectorInitiator+opaque ports, inverted ranges", ok(func(c *message.IKEPayloadContainer) {
		ts := c.BuildTrafficSelectorInitiator()
		ts.TrafficSelectors.BuildIndividualTrafficSelector(7, 17, 65535, 0, ca([]byte{10, 0, 0, 9}), ca([]byte{10, 0, 0, 1}))
		ts.TrafficSelectors.BuildIndividualTrafficSelector(8, 6, 443, 80, ca(univ.Pat(16, 10)), ca(univ.Pat(16, 9)))
		ts.TrafficSelectors.BuildIndividualTrafficSelector(7, 0, 5, 5, ca([]byte{255, 255, 255, 255}), ca([]byte{0, 0, 0, 0}))
	}), ref.Payload{T: ref.PTSi, TS: []ref.Selector{{Type: 7, Proto: 17, SPort: 65535, EPort: 0, SAddr: []byte{10, 0, 0, 9}, EAddr: []byte{10, 0, 0, 1}},
		{Type: 8, Proto: 6, SPort: 443, EPort: 80, SAddr: univ.Pat(16, 10), EAddr: univ.Pat(16, 9)},
		{Type: 7, Proto: 0, SPort: 5, EPort: 5, SAddr: []byte{255, 255, 255, 255}, EAddr: []byte{0, 0, 0, 0}}}})
	add("BuildSecurityAssociation+proposal+transforms", ok(func(c *message.IKEPayloadContainer) {
		sa := c.BuildSecurityAssociation()
		p := sa.Proposals.BuildProposal(1, 3, ca(univ.Pat(4, 11)))
		at, av := uint16(14), uint16(256)
		p.EncryptionAlgorithm.BuildTransform(1, 12, &at, &av, nil)
		p.IntegrityAlgorithm.BuildTransform(3, 12, nil, nil, nil)
		at2 := uint16(300)
		p.IntegrityAlgorithm.BuildTransform(3, 2, &at2, nil, ca(univ.Pat(5, 12)))
		at3, av3 := uint16(9), uint16(0)
		p.IntegrityAlgorithm.BuildTransform(3, 5, &at3, &av3, nil) // a TV attribute whose value is 0
		p.ExtendedSequenceNumbers.BuildTransform(5, 0, nil, nil, nil)
		q := sa.Proposals.BuildProposal(2, 1, nil)
		q.PseudorandomFunction.BuildTransform(2, 5, nil, nil, nil)
		q.DiffieHellmanGroup.BuildTransform(4, 14, nil, nil, nil)
	}), ref.Payload{T: ref.PSA, SA: []ref.Proposal{
		{Num: 1, Proto: 3, SPI: univ.Pat(4, 11), Tr: []ref.Transform{{Type: 1, ID: 12, HasAttr: true, TV: true, AType: 14, AValue: 256}, {Type: 3, ID: 12},
			{Type: 3, ID: 2, HasAttr: true, AType: 300, AVar: univ.Pat(5, 12)}, {Type: 3, ID: 5, HasAttr: true, TV: true, AType: 9, AValue: 0}, {Type: 5, ID: 0}}},
		{Num: 2, Proto: 1, Tr: []ref.Transform{{Type: 2, ID: 5}, {Type: 4, ID: 14}}}}})
	add("BuildDeletePayload(esp,2)", ok(func(c *message.IKEPayloadContainer) {
		c.BuildDeletePayload(3, 4, 2, cu([]uint32{0x01020304, 0xfffffffe}))
	}),
		ref.Payload{T: ref.PDelete, B: 3, SSize: 4, NSPI: 2, SPIs: []uint32{0x01020304, 0xfffffffe}})
	add("BuildDeletePayload(ike)", ok(func(c *message.IKEPayloadContainer) { c.BuildDeletePayload(1, 0, 0, nil) }), ref.Payload{T: ref.PDelete, B: 1})
	add("BuildEAP+Identity", ok(func(c *message.IKEPayloadContainer) {
		e := c.BuildEAP(eap.EapCodeResponse, 7)
		e.EapTypeData = &eap.EapIdentity{IdentityData: []byte("anonymous")}
	}), ref.Payload{T: ref.PEAP, EAP: &ref.EAP{Code: 2, ID: 7, Method: 1, Data: []byte("anonymous")}})
	add("BuildEAP+Expanded", ok(func(c *message.IKEPayloadContainer) {
		e := c.BuildEAP(eap.EapCodeRequest, 8)
		e.EapTypeData = message.BuildEapExpanded(0xabcdef, 0x01020304, ca(univ.Pat(6, 13)))
	}), ref.Payload{T: ref.PEAP, EAP: &ref.EAP{Code: 1, ID: 8, Method: 254, VID: 0xabcdef, VType: 0x01020304, Data: univ.Pat(6, 13)}})
	add("BuildEAPSuccess", ok(func(c *message.IKEPayloadContainer) { c.BuildEAPSuccess(200) }), ref.Payload{T: ref.PEAP, EAP: &ref.EAP{Code: 3, ID: 200}})
	add("BuildEAPfailure", ok(func(c *message.IKEPayloadContainer) { c.BuildEAPfailure(0) }), ref.Payload{T: ref.PEAP, EAP: &ref.EAP{Code: 4, ID: 0}})
	add("BuildEAP5GStart", ok(func(c *message.IKEPayloadContainer) { c.BuildEAP5GStart(33) }),
		ref.Payload{T: ref.PEAP, EAP: &ref.EAP{Code: 1, ID: 33, Method: 254, VID: 10415, VType: 3, Data: []byte{1, 0}}})
	add("BuildEAP5GNAS(40)", func(c *message.IKEPayloadContainer) error { return c.BuildEAP5GNAS(34, ca(univ.Pat(40, 14))) },
		ref.Payload{T: ref.PEAP, EAP: &ref.EAP{Code: 1, ID: 34, Method: 254, VID: 10415, VType: 3, Data: append([]byte{2, 0, 0, 40}, univ.Pat(40, 14)...)}})
	add("BuildNotify5G_QOS_INFO(3qfi,default,dscp)", func(c *message.IKEPayloadContainer) error {
		return c.BuildNotify5G_QOS_INFO(5, ca([]uint8{1, 2, 9}), true, true, 46)
	},
		notify3gpp(55501, qosData(5, []uint8{1, 2, 9}, true, true, 46)))
	add("BuildNotify5G_QOS_INFO(none)", func(c *message.IKEPayloadContainer) error {
		return c.BuildNotify5G_QOS_INFO(255, nil, false, false, 63)
	},
		notify3gpp(55501, qosData(255, nil, false, false, 0)))
	add("BuildNotifyNAS_IP4_ADDRESS", ok(func(c *message.IKEPayloadContainer) { c.BuildNotifyNAS_IP4_ADDRESS("10.0.0.1") }), notify3gpp(55502, []byte{10, 0, 0, 1}))
	add("BuildNotifyUP_IP4_ADDRESS", ok(func(c *message.IKEPayloadContainer) { c.BuildNotifyUP_IP4_ADDRESS("192.168.127.1") }), notify3gpp(55504, []byte{192, 168, 127, 1}))
	add("BuildNotifyNAS_TCP_PORT", ok(func(c *message.IKEPayloadContainer) { c.BuildNotifyNAS_TCP_PORT(20000) }), notify3gpp(55506, []byte{0x4e, 0x20}))
	return ops
}

func init() {
	engine.Register(&engine.Check{
		ID:    "C19",
		Level: "model_checking",
		Rule: "explicit-state search over IKEPayloadContainer (and the nested proposal / transform / selector / attribute containers): ops = every Build* function with representative arguments, applied from every prior container content of depth <= 2 (quick) / 4 (thorough); a reference list model is advanced in parallel. After every op: the container projects to model ++ [expected payload], every earlier payload has an unchanged dump, and the encoding of the container is accepted by the strict reference parser and parses to the model (3GPP layouts included). " +
			"Arguments are handed over in caller buffers that are overwritten (spare capacity included) as soon as the builder has returned. For every ordered pair of builders (a, b): b builds into one container, a into another whose holder then overwrites everything reachable from it, b builds again — both results of b equal its arguments. Argument sweeps from the empty container: NAS PDUs 1..64 ∪ {65520..65536, 70000}, QFI lists 0..300 × flags × DSCP, PDU session id 0..255, dotted quads, ports, octet strings around the 16-bit limit, all 256 exchange types × 4 flag combinations × SPI/message-id patterns for NewHeader/NewMessage. Oversize arguments: an error (at build or at encode), never a truncated length field. distinct_nontrivial = distinct container encodings verified against the model",
		Assumptions: []string{"TS 24.502 layouts are taken as listed in the property statement (5G_QOS_INFO length octet counts the whole value including itself; DSCPI = bit 1, DCSI = bit 2)"},
		Run:         runC19,
		Replay: func(c *engine.Ctx, raw json.RawMessage) {
			var cs c19Case
			unmarshalCase(raw, &cs)
			switch cs.K {
			case "seq":
				c19Seq(c, cs.Hist, cs.Op)
			case "edited":
				c19Edited(c, cs.Hist[0], cs.Op)
			case "nested":
				c19Nested(c, cs.Op, cs.Args)
			case "sweep":
				c19Sweep(c, cs.Op, cs.Args)
			case "header":
				c19Header(c, cs.Args)
			}
		},
	})
}

func runC19(c *engine.Ctx) {
	ops := c19Ops()
	depth := 2
	if c.Thorough() {
		depth = 4
	}
	var rec func(hist []int)
	rec = func(hist []int) {
		for oi := range ops {
			c19Seq(c, hist, oi)
		}
		if len(hist) == depth {
			return
		}
		for oi := range ops {
			rec(append(append([]int(nil), hist...), oi))
		}
	}
	for oi := range ops {
		if c.Mine() {
			rec([]int{oi})
		}
	}
	if c.Mine() {
		for oi := range ops {
			c19Seq(c, nil, oi)
		}
		for a := range ops {
			for b := range ops {
				c19Edited(c, a, b)
			}
		}
	}
	// nested containers: every sequence (with repetitions) of sub-element builders up to depth 3
	for kind := 0; kind < 4; kind++ {
		n := c19NestedAlphabet(kind)
		var nrec func(seq []int)
		nrec = func(seq []int) {
			if len(seq) > 0 {
				c19Nested(c, kind, seq)
			}
			if len(seq) == 3 {
				return
			}
			for i := 0; i < n; i++ {
				nrec(append(append([]int(nil), seq...), i))
			}
		}
		for i := 0; i < n; i++ {
			if c.Mine() {
				nrec([]int{i})
			}
		}
	}
	// one proposal, every combination of 0 / 1 / 4 / 5 / 6 transforms in each of its five lists, the lists filled
	// in forward and in reverse order (kind 4 / 5): a list that grows must not reach into its neighbours
	counts := []int{0, 1, 4, 5, 6}
	for a := range counts {
		for b := range counts {
			if !c.Mine() {
				continue
			}
			for d := range counts {
				for e := range counts {
					for f := range counts {
						if a+b+d+e+f == 0 || ((a+b+d+e+f)%2 == 1 && !c.Thorough()) {
							continue // (a proposal without transforms is outside the encodable domain)
						}
						c19Nested(c, 4, []int{counts[a], counts[b], counts[d], counts[e], counts[f]})
						c19Nested(c, 5, []int{counts[a], counts[b], counts[d], counts[e], counts[f]})
					}
				}
			}
		}
	}
	// argument sweeps
	for kind := 0; kind < c19SweepKinds; kind++ {
		for _, a := range c19SweepArgs(kind, c.Thorough()) {
			if c.Mine() {
				c19Sweep(c, kind, a)
			}
		}
	}
	for ex := 0; ex < 256; ex++ {
		if !c.Mine() {
			continue
		}
		for fl := 0; fl < 4; fl++ {
			for sp := 0; sp < 6; sp++ {
				c19Header(c, []int{ex, fl, sp})
			}
		}
	}
}

// c19Edited: what a builder appended belongs to the container it was appended to. The holder of one container edits
// everything reachable from it (EAP-5G Start turned into Stop by patching its vendor data, an address rewritten in
// place); a payload built earlier into another container stays what it was, and the same builder called afterwards
// yields its arguments again.
func c19Edited(c *engine.Ctx, a, b int) {
	c.Evals++
	c.Transitions++
	ops := c19Ops()
	cs := c19Case{K: "edited", Hist: []int{a}, Op: b}
	var before, edited, after message.IKEPayloadContainer
	var err error
	var pre string
	if pi := engine.Catch(func() {
		if err = ops[b].apply(&before); err != nil {
			return
		}
		pre = ref.CanonPayloads(univ.ProjectPayloads(before))
		if err = ops[a].apply(&edited); err != nil {
			return
		}
		engine.Scribble(&edited)
		err = ops[b].apply(&after)
	}); pi != nil {
		c.Violate(pi.Sig(), "builder panics: "+pi.Value, cs)
		return
	}
	if err != nil {
		c.Violate("builder-error/"+ops[b].name, errStr(err), cs)
		return
	}
	want := ref.CanonPayloads(ops[b].expect)
	if pre != want {
		return // wrong from the start: reported by the sequence sub-check under its own signature
	}
	if got := ref.CanonPayloads(univ.ProjectPayloads(before)); got != want {
		c.Violate("built-payload-changes-when-another-is-edited/"+ops[b].name, fmt.Sprintf("%s was built, then the result of %s (another container) was overwritten by its holder: the first container now holds %s, arguments say %s", ops[b].name, ops[a].name, trs(got), trs(want)), cs)
		return
	}
	if got := ref.CanonPayloads(univ.ProjectPayloads(after)); got != want {
		c.Violate("fields-after-another-result-was-edited/"+ops[b].name, fmt.Sprintf("the result of %s was overwritten by its holder, then %s: container %s, arguments say %s", ops[a].name, ops[b].name, trs(got), trs(want)), cs)
		return
	}
}

func c19Seq(c *engine.Ctx, hist []int, oi int) {
	c.Evals++
	c.Transitions++
	ops := c19Ops()
	cs := c19Case{K: "seq", Hist: hist, Op: oi}
	var cont message.IKEPayloadContainer
	var model []ref.Payload
	for _, h := range hist {
		if err := ops[h].apply(&cont); err != nil {
			c.Violate("builder-error/"+ops[h].name, errStr(err), cs)
			return
		}
		model = append(model, ops[h].expect...)
	}
	before := make([]string, len(cont))
	for i, p := range cont {
		before[i] = engine.Dump(p)
	}
	op := ops[oi]
	var err error
	if pi := engine.Catch(func() { err = op.apply(&cont) }); pi != nil {
		c.Violate(pi.Sig(), op.name+" panics: "+pi.Value, cs)
		return
	}
	if err != nil {
		c.Violate("builder-error/"+op.name, errStr(err), cs)
		return
	}
	model = append(model, op.expect...)
	if len(cont) != len(model) {
		c.Violate("appended-count/"+op.name, fmt.Sprintf("%s after %d payloads: container has %d elements, model %d", op.name, len(before), len(cont), len(model)), cs)
		return
	}
	for i := range before {
		if engine.Dump(cont[i]) != before[i] {
			c.Violate("earlier-payload-changed/"+op.name, fmt.Sprintf("%s changed payload %d of the container", op.name, i), cs)
			return
		}
	}
	got := univ.ProjectPayloads(cont)
	if ref.CanonPayloads(got) != ref.CanonPayloads(model) {
		c.Violate("fields/"+op.name+"/"+ref.FirstDiff(model, got), fmt.Sprintf("%s: container %s, arguments say %s", op.name, trs(ref.CanonPayloads(got)), trs(ref.CanonPayloads(model))), cs)
		return
	}
	// wire: the container's encoding parses to the model (skip containers whose SK is not last: not encodable as a chain)
	c19Wire(c, cs, op.name, cont, model)
	// Reset and reuse: somebody (a message built from this container, the caller's own variable) still holds
	// the list; after Reset the container is built up again and the holder must still see the old payloads
	if len(cont) > 0 {
		holder := cont
		want := make([]message.IKEPayload, len(cont))
		copy(want, cont)
		cont.Reset()
		if len(cont) != 0 {
			c.Violate("reset/not-empty", fmt.Sprintf("after Reset the container holds %d payloads", len(cont)), cs)
			return
		}
		if pi := engine.Catch(func() { _ = op.apply(&cont); _ = ops[(oi+5)%len(ops)].apply(&cont) }); pi != nil {
			c.Violate(pi.Sig(), "building after Reset panics: "+pi.Value, cs)
			return
		}
		for i := range want {
			if holder[i] != want[i] {
				c.Violate("reset/rebuild-overwrites-held-list", fmt.Sprintf("%s: a payload list handed out before Reset shows a different payload at index %d after the container was reset and built up again", op.name, i), cs)
				return
			}
		}
	}
}

func c19Wire(c *engine.Ctx, cs c19Case, opname string, cont message.IKEPayloadContainer, model []ref.Payload) {
	for i, p := range model {
		if p.T == ref.PSK && i != len(model)-1 {
			return
		}
	}
	var b []byte
	var err error
	if pi := engine.Catch(func() { b, err = cont.Encode() }); pi != nil {
		c.Violate(pi.Sig(), "Encode of built container panics: "+pi.Value, cs)
		return
	}
	if err != nil {
		c.Violate("built-container-not-encodable/"+opname, errStr(err), cs)
		return
	}
	c.Traces++
	first := uint8(0)
	if len(model) > 0 {
		first = model[0].T
	}
	var inf ref.Info
	wm := append([]ref.Payload(nil), model...)
	if n := len(wm); n > 0 && wm[n-1].T == ref.PSK {
		// the trailing SK names the first inner payload in its generic header; its body is opaque
		x := wm[n-1]
		x.B = 0
		wm[n-1] = x
		if len(b) >= 4 {
			// locate the last payload's generic header: walk the chain
			off := 0
			for off+4 <= len(b) {
				l := int(b[off+2])<<8 | int(b[off+3])
				if off+l >= len(b) {
					break
				}
				off += l
			}
			if b[off] != model[n-1].B {
				c.Violate("sk-next-payload/"+opname, fmt.Sprintf("trailing SK names next payload %d, built with %d", b[off], model[n-1].B), cs)
				return
			}
			b = append([]byte(nil), b...)
			b[off] = 0
		}
	}
	ps, perr := ref.ParseChain(first, b, true, &inf)
	if perr != nil {
		c.Violate("wire-malformed/"+opname+"/"+classify(perr), fmt.Sprintf("%s: strict parser: %v; wire %x", opname, perr, trunc(b, 80)), cs)
		return
	}
	for i := range ps {
		if ps[i].T == ref.PSK {
			ps[i].B = 0
		}
	}
	if ref.CanonPayloads(ps) != ref.CanonPayloads(wm) {
		c.Violate("wire-fields/"+opname+"/"+ref.FirstDiff(wm, ps), fmt.Sprintf("%s: wire parses to %s, arguments say %s", opname, trs(ref.CanonPayloads(ps)), trs(ref.CanonPayloads(wm))), cs)
		return
	}
	h := engine.Hash64(b)
	if c.State(h) {
		c.States++
		c.Distinct(h)
	}
	c.Sample(opname, map[string]interface{}{"history": cs.Hist, "op": opname, "wire": engine.Hex(trunc(b, 64))})
}

// ---- argument sweeps -----------------------------------------------------------

const c19SweepKinds = 10

func c19SweepArgs(kind int, thorough bool) [][]int {
	var out [][]int
	switch kind {
	case 0: // NAS PDU length
		for n := 0; n <= 64; n++ {
			out = append(out, []int{n})
		}
		for _, n := range []int{255, 256, 65519, 65520, 65521, 65522, 65523, 65524, 65525, 65530, 65534, 65535, 65536, 70000} {
			out = append(out, []int{n})
		}
	case 1: // QFI list length × flags × dscp
		for n := 0; n <= 300; n++ {
			for f := 0; f < 4; f++ {
				for _, d := range []int{0, 1, 63, 255} {
					if thorough || f == n%4 || d == []int{0, 1, 63, 255}[n%4] || n >= 248 && n <= 258 {
						out = append(out, []int{n, f, d})
					}
				}
			}
		}
	case 2: // PDU session id
		for v := 0; v < 256; v++ {
			out = append(out, []int{v})
		}
	case 3: // dotted quads (NAS / UP)
		for q := range c19Quads {
			out = append(out, []int{q, 0}, []int{q, 1})
		}
	case 4: // TCP port
		for _, p := range []int{0, 1, 80, 255, 256, 20000, 65535} {
			out = append(out, []int{p})
		}
	case 5: // octet-string lengths for the data-carrying builders, builder index × length
		for b := 0; b < 9; b++ {
			for _, n := range []int{0, 1, 16, 255, 256, 65526, 65527, 65530, 65531, 65532, 65535, 65536, 70000} {
				out = append(out, []int{b, n})
			}
		}
	case 6: // SPI lengths for Notify / proposal
		for _, n := range []int{0, 1, 4, 8, 255, 256, 300} {
			out = append(out, []int{0, n}, []int{1, n})
		}
	case 7: // transform attribute forms
		for f := 0; f < 4; f++ {
			out = append(out, []int{f})
		}
	case 8: // EAP5GStart / Success / failure identifiers
		for v := 0; v < 256; v++ {
			out = append(out, []int{v})
		}
	case 9: // Delete: SPI count argument × length of the SPI list (they need not agree)
		for n := 0; n <= 4; n++ {
			for l := 0; l <= 4; l++ {
				out = append(out, []int{n, l})
			}
		}
		out = append(out, []int{16381, 16381}, []int{16382, 16382}, []int{1, 16382}, []int{65535, 2})
	}
	return out
}

// Texts that denote an IPv4 address: dotted quads over an octet alphabet, and the same addresses written in the
// IPv4-mapped IPv6 forms that the standard library prints for dual-stack sockets and parses back to 4 octets.
var c19Quads = []string{"0.0.0.0", "10.0.0.1", "255.255.255.255", "192.168.127.1", ""}
var c19QuadBytes = [][]byte{{0, 0, 0, 0}, {10, 0, 0, 1}, {255, 255, 255, 255}, {192, 168, 127, 1}, nil}

func init() {
	oct := []int{0, 1, 9, 10, 99, 100, 127, 128, 192, 255}
	for _, a := range oct {
		for _, b := range []int{0, 168, 255} {
			for _, cc := range []int{0, 1, 127, 255} {
				for _, d := range oct {
					q := []byte{byte(a), byte(b), byte(cc), byte(d)}
					dotted := fmt.Sprintf("%d.%d.%d.%d", a, b, cc, d)
					c19Quads = append(c19Quads, dotted, "::ffff:"+dotted, fmt.Sprintf("::ffff:%x:%x", a<<8|b, cc<<8|d), fmt.Sprintf("0:0:0:0:0:ffff:%x:%x", a<<8|b, cc<<8|d), fmt.Sprintf("::FFFF:%02X%02X:%02X%02X", a, b, cc, d))
					c19QuadBytes = append(c19QuadBytes, q, q, q, q, q)
				}
			}
		}
	}
}

func c19Sweep(c *engine.Ctx, kind int, a []int) {
	c.Evals++
	c.Transitions++
	cs := c19Case{K: "sweep", Op: kind, Args: a}
	var cont message.IKEPayloadContainer
	var err error
	var exp []ref.Payload
	over := false
	name := ""
	fieldErr := ""
	pi := engine.Catch(func() {
		switch kind {
		case 0:
			name = "BuildEAP5GNAS"
			n := a[0]
			nas := univ.Pat(n, n)
			err = cont.BuildEAP5GNAS(uint8(n), nas)
			// EAP packet = 4 + 8 + 4 + n, IKE payload = 4 + that: the NAS length field holds n <= 65535 but the payload limit is lower
			over = n == 0 || 4+4+8+4+n > 65535
			exp = []ref.Payload{{T: ref.PEAP, EAP: &ref.EAP{Code: 1, ID: uint8(n), Method: 254, VID: 10415, VType: 3, Data: append([]byte{2, 0, byte(n >> 8), byte(n)}, nas...)}}}
		case 1:
			name = "BuildNotify5G_QOS_INFO"
			n, f, d := a[0], a[1], a[2]
			qfi := u8s(n, n)
			err = cont.BuildNotify5G_QOS_INFO(uint8(n*3), qfi, f&2 != 0, f&1 != 0, uint8(d))
			total := 3 + n + 1
			if f&1 != 0 {
				total++
			}
			over = n > 255 || total > 255
			if !over {
				exp = []ref.Payload{notify3gpp(55501, qosData(uint8(n*3), qfi, f&2 != 0, f&1 != 0, uint8(d)))}
			}
		case 2:
			name = "BuildNotify5G_QOS_INFO(pdu)"
			err = cont.BuildNotify5G_QOS_INFO(uint8(a[0]), []uint8{uint8(a[0])}, a[0]%2 == 0, a[0]%3 == 0, uint8(a[0]))
			exp = []ref.Payload{notify3gpp(55501, qosData(uint8(a[0]), []uint8{uint8(a[0])}, a[0]%2 == 0, a[0]%3 == 0, uint8(a[0])))}
		case 3:
			if a[1] == 0 {
				name = "BuildNotifyNAS_IP4_ADDRESS"
				cont.BuildNotifyNAS_IP4_ADDRESS(c19Quads[a[0]])
				if c19Quads[a[0]] != "" {
					exp = []ref.Payload{notify3gpp(55502, c19QuadBytes[a[0]])}
				}
			} else {
				name = "BuildNotifyUP_IP4_ADDRESS"
				cont.BuildNotifyUP_IP4_ADDRESS(c19Quads[a[0]])
				if c19Quads[a[0]] != "" {
					exp = []ref.Payload{notify3gpp(55504, c19QuadBytes[a[0]])}
				}
			}
		case 4:
			name = "BuildNotifyNAS_TCP_PORT"
			cont.BuildNotifyNAS_TCP_PORT(uint16(a[0]))
			if a[0] != 0 {
				exp = []ref.Payload{notify3gpp(55506, []byte{byte(a[0] >> 8), byte(a[0])})}
			}
		case 5:
			n := a[1]
			d := univ.Pat(n, n+a[0])
			hdr := 0
			switch a[0] {
			case 0:
				name, hdr = "BuildNonce", 0
				cont.BuildNonce(d)
				exp = []ref.Payload{{T: ref.PNonce, Data: d}}
			case 1:
				name, hdr = "BUildKeyExchange", 4
				cont.BUildKeyExchange(2, d)
				exp = []ref.Payload{{T: ref.PKE, Group: 2, Data: d}}
			case 2:
				name, hdr = "BuildIdentificationInitiator", 4
				cont.BuildIdentificationInitiator(1, d)
				exp = []ref.Payload{{T: ref.PIDi, B: 1, Data: d}}
			case 3:
				name, hdr = "BuildIdentificationResponder", 4
				cont.BuildIdentificationResponder(1, d)
				exp = []ref.Payload{{T: ref.PIDr, B: 1, Data: d}}
			case 4:
				name, hdr = "BuildAuthentication", 4
				cont.BuildAuthentication(1, d)
				exp = []ref.Payload{{T: ref.PAUTH, B: 1, Data: d}}
			case 5:
				name, hdr = "BuildCertificate", 1
				cont.BuildCertificate(4, d)
				exp = []ref.Payload{{T: ref.PCERT, B: 4, Data: d}}
			case 6:
				name, hdr = "BuildNotification", 4
				cont.BuildNotification(1, 2, nil, d)
				exp = []ref.Payload{{T: ref.PNotify, B: 1, NType: 2, Data: d}}
			case 7:
				name, hdr = "BuildConfigurationAttribute", 8
				cp := cont.BuildConfiguration(2)
				cp.ConfigurationAttribute.BuildConfigurationAttribute(9, d)
				exp = []ref.Payload{{T: ref.PCP, B: 2, CP: []ref.CPAttr{{Type: 9, Val: d}}}}
			case 8:
				name, hdr = "BuildEapExpanded", 12
				e := cont.BuildEAP(eap.EapCodeRequest, 1)
				e.EapTypeData = message.BuildEapExpanded(1, 2, d)
				exp = []ref.Payload{{T: ref.PEAP, EAP: &ref.EAP{Code: 1, ID: 1, Method: 254, VID: 1, VType: 2, Data: d}}}
			}
			over = 4+hdr+n > 65535 || (n == 0 && a[0] >= 1 && a[0] <= 5)
			if n == 0 && a[0] >= 1 && a[0] <= 5 {
				// empty data is outside the encodable domain for these kinds; only the container content is checked
				over = false
				exp = nil
				cont = nil
			}
		case 6:
			n := a[1]
			spi := univ.Pat(n, n)
			if a[0] == 0 {
				name = "BuildNotification(spi)"
				cont.BuildNotification(3, 4, spi, []byte{1})
				exp = []ref.Payload{{T: ref.PNotify, B: 3, NType: 4, SPI: spi, Data: []byte{1}}}
			} else {
				name = "BuildProposal(spi)"
				sa := cont.BuildSecurityAssociation()
				p := sa.Proposals.BuildProposal(1, 3, spi)
				p.ExtendedSequenceNumbers.BuildTransform(5, 1, nil, nil, nil)
				exp = []ref.Payload{{T: ref.PSA, SA: []ref.Proposal{{Num: 1, Proto: 3, SPI: spi, Tr: []ref.Transform{{Type: 5, ID: 1}}}}}}
			}
			over = n > 255
		case 7:
			name = "BuildTransform"
			sa := cont.BuildSecurityAssociation()
			p := sa.Proposals.BuildProposal(1, 1, nil)
			at, av := uint16(14), uint16(192)
			var et ref.Transform
			switch a[0] {
			case 0:
				p.EncryptionAlgorithm.BuildTransform(1, 12, nil, nil, nil)
				et = ref.Transform{Type: 1, ID: 12}
			case 1:
				p.EncryptionAlgorithm.BuildTransform(1, 12, &at, &av, nil)
				et = ref.Transform{Type: 1, ID: 12, HasAttr: true, TV: true, AType: 14, AValue: 192}
			case 2:
				p.EncryptionAlgorithm.BuildTransform(1, 12, &at, nil, []byte{0, 192})
				et = ref.Transform{Type: 1, ID: 12, HasAttr: true, AType: 14, AVar: []byte{0, 192}}
			case 3: // TV wins when both a TV value and a TLV value are given
				p.EncryptionAlgorithm.BuildTransform(1, 12, &at, &av, []byte{9})
				et = ref.Transform{Type: 1, ID: 12, HasAttr: true, TV: true, AType: 14, AValue: 192}
			}
			exp = []ref.Payload{{T: ref.PSA, SA: []ref.Proposal{{Num: 1, Proto: 1, Tr: []ref.Transform{et}}}}}
		case 8:
			name = "BuildEAP5GStart/Success/failure"
			cont.BuildEAP5GStart(uint8(a[0]))
			cont.BuildEAPSuccess(uint8(a[0]))
			cont.BuildEAPfailure(uint8(a[0]))
			exp = []ref.Payload{{T: ref.PEAP, EAP: &ref.EAP{Code: 1, ID: uint8(a[0]), Method: 254, VID: 10415, VType: 3, Data: []byte{1, 0}}},
				{T: ref.PEAP, EAP: &ref.EAP{Code: 3, ID: uint8(a[0])}}, {T: ref.PEAP, EAP: &ref.EAP{Code: 4, ID: uint8(a[0])}}}
		case 9:
			name = "BuildDeletePayload(count,list)"
			n, l := a[0], a[1]
			list := make([]uint32, l)
			for i := range list {
				list[i] = uint32(i+1) * 0x01010101
			}
			given := append([]uint32(nil), list...)
			cont.BuildDeletePayload(3, 4, uint16(n), list)
			if len(cont) == 1 {
				if d, ok := cont[0].(*message.Delete); ok {
					same := len(d.SPIs) == len(given)
					for i := 0; same && i < len(given); i++ {
						same = d.SPIs[i] == given[i]
					}
					if !same || d.NumberOfSPI != uint16(n) || d.SPISize != 4 || d.ProtocolID != 3 {
						fieldErr = fmt.Sprintf("payload holds protocol %d, SPI size %d, count %d, %d SPIs; arguments were 3, 4, %d and a list of %d", d.ProtocolID, d.SPISize, d.NumberOfSPI, len(d.SPIs), n, len(given))
					}
				}
			}
			over = n != l || 8+4*l > 65535
			if !over {
				exp = []ref.Payload{{T: ref.PDelete, B: 3, SSize: 4, NSPI: uint16(n), SPIs: given}}
			}
		}
	})
	if fieldErr != "" {
		c.Violate("fields/"+name, fieldErr, cs)
		return
	}
	if pi != nil {
		c.Violate(pi.Sig(), fmt.Sprintf("%s(%v) panics: %s", name, a, pi.Value), cs)
		return
	}
	if over {
		c.Count("oversize_arguments", 1)
		if err != nil {
			if len(cont) != 0 {
				c.Violate("oversize/error-but-appended/"+name, fmt.Sprintf("%s(%v) returns an error and still appends a payload", name, a), cs)
			}
			return
		}
		var b []byte
		var eerr error
		if pi := engine.Catch(func() { b, eerr = cont.Encode() }); pi != nil {
			c.Violate(pi.Sig(), name+": Encode panics: "+pi.Value, cs)
			return
		}
		if eerr == nil {
			c.Violate("oversize/truncated-field/"+name, fmt.Sprintf("%s(%v): neither the builder nor Encode refuses; %d octets emitted", name, a, len(b)), cs)
		}
		return
	}
	if err != nil {
		c.Violate("builder-error/"+name, fmt.Sprintf("%s(%v): %s", name, a, errStr(err)), cs)
		return
	}
	got := univ.ProjectPayloads(cont)
	if ref.CanonPayloads(got) != ref.CanonPayloads(exp) {
		c.Violate("fields/"+name+"/"+ref.FirstDiff(exp, got), fmt.Sprintf("%s(%v): container %s, arguments say %s", name, a, trs(ref.CanonPayloads(got)), trs(ref.CanonPayloads(exp))), cs)
		return
	}
	if len(exp) > 0 {
		c19Wire(c, cs, name, cont, exp)
	}
}

func c19Header(c *engine.Ctx, a []int) {
	c.Evals++
	cs := c19Case{K: "header", Args: a}
	ex, fl, sp := uint8(a[0]), a[1], a[2]
	resp, init := fl&1 != 0, fl&2 != 0
	spis := [][3]uint64{{0, 0, 0}, {1, 2, 3}, {^uint64(0), 1 << 63, 0xffffffff}, {0x0102030405060708, 0x1112131415161718, 0x80000000}, {0x0102030405060708, 0, 0}, {0, 7, 1}}[sp]
	h := message.NewHeader(spis[0], spis[1], ex, resp, init, uint32(spis[2]), 0, nil)
	var pl message.IKEPayloadContainer
	pl.BuildNonce([]byte{1, 2, 3})
	m := message.NewMessage(spis[0], spis[1], ex, resp, init, uint32(spis[2]), pl)
	for i, hh := range []*message.IKEHeader{h, m.IKEHeader} {
		wantFlags := uint8(0)
		if resp {
			wantFlags |= 0x20
		}
		if init {
			wantFlags |= 0x08
		}
		src := []string{"NewHeader", "NewMessage"}[i]
		if hh.MajorVersion != 2 || hh.MinorVersion != 0 {
			c.Violate("header/version/"+src, fmt.Sprintf("version %d.%d", hh.MajorVersion, hh.MinorVersion), cs)
			return
		}
		if hh.InitiatorSPI != spis[0] || hh.ResponderSPI != spis[1] || hh.ExchangeType != ex || hh.MessageID != uint32(spis[2]) {
			c.Violate("header/fields/"+src, fmt.Sprintf("%+v", *hh), cs)
			return
		}
		if hh.Flags != wantFlags {
			c.Violate("header/flags/"+src, fmt.Sprintf("response=%v initiator=%v gives flags %02x, want %02x", resp, init, hh.Flags, wantFlags), cs)
			return
		}
		if hh.IsResponse() != resp || hh.IsInitiator() != init {
			c.Violate("header/accessors/"+src, fmt.Sprintf("IsResponse=%v IsInitiator=%v for response=%v initiator=%v", hh.IsResponse(), hh.IsInitiator(), resp, init), cs)
			return
		}
	}
	if len(m.Payloads) != 1 {
		c.Violate("newmessage/payloads", "payload list not taken over", cs)
		return
	}
	b, err := m.Encode()
	if err != nil {
		c.Violate("newmessage/encode", errStr(err), cs)
		return
	}
	pm, _, perr := ref.Parse(b, true)
	want := ref.Hdr{ISPI: spis[0], RSPI: spis[1], Major: 2, Minor: 0, Exch: ex, Flags: h.Flags, MsgID: uint32(spis[2])}
	if perr != nil || pm.H != want {
		c.Violate("header/wire", fmt.Sprintf("%v %s", perr, pm.H.Canon()), cs)
		return
	}
	c.Distinct(engine.Hash64(b))
}

// ---- nested containers ---------------------------------------------------------

var c19Transforms = []ref.Transform{{Type: 1, ID: 12}, {Type: 1, ID: 12, HasAttr: true, TV: true, AType: 14, AValue: 128}, {Type: 1, ID: 12, HasAttr: true, TV: true, AType: 14, AValue: 256},
	{Type: 1, ID: 12, HasAttr: true, AType: 14, AVar: []byte{0, 128}}, {Type: 1, ID: 12, HasAttr: true, AType: 14, AVar: []byte{0, 192}}, {Type: 1, ID: 12, HasAttr: true, TV: true, AType: 15, AValue: 128}}
var c19Selectors = []ref.Selector{{Type: 7, Proto: 6, SPort: 1, EPort: 2, SAddr: []byte{1, 2, 3, 4}, EAddr: []byte{1, 2, 3, 9}}, {Type: 7, Proto: 6, SPort: 1, EPort: 2, SAddr: []byte{1, 2, 3, 4}, EAddr: []byte{1, 2, 3, 10}},
	{Type: 8, Proto: 6, SPort: 1, EPort: 2, SAddr: univ.Pat(16, 1), EAddr: univ.Pat(16, 2)}, {Type: 7, Proto: 17, SPort: 1, EPort: 2, SAddr: []byte{1, 2, 3, 4}, EAddr: []byte{1, 2, 3, 9}}}
var c19CPAttrs = []ref.CPAttr{{Type: 1}, {Type: 1, Val: []byte{10, 0, 0, 1}}, {Type: 1, Val: []byte{10, 0, 0, 2}}, {Type: 2, Val: []byte{10, 0, 0, 1}}}
var c19Proposals = []ref.Proposal{{Num: 1, Proto: 1}, {Num: 1, Proto: 1, SPI: []byte{1, 2, 3, 4}}, {Num: 1, Proto: 3, SPI: []byte{1, 2, 3, 5}}}

func c19NestedAlphabet(kind int) int {
	return []int{len(c19Transforms), len(c19Selectors), len(c19CPAttrs), len(c19Proposals)}[kind]
}

// c19Nested applies a sequence of sub-element builders to one nested container and compares with the list model.
func c19Nested(c *engine.Ctx, kind int, seq []int) {
	c.Evals++
	c.Transitions += int64(len(seq))
	cs := c19Case{K: "nested", Op: kind, Args: seq}
	var cont message.IKEPayloadContainer
	var want ref.Payload
	name := ""
	pi := engine.Catch(func() {
		switch kind {
		case 0:
			name = "BuildTransform"
			sa := cont.BuildSecurityAssociation()
			p := sa.Proposals.BuildProposal(1, 1, nil)
			wp := ref.Proposal{Num: 1, Proto: 1}
			for _, i := range seq {
				t := c19Transforms[i]
				var at, av *uint16
				var vv []byte
				if t.HasAttr {
					x := t.AType
					at = &x
					if t.TV {
						y := t.AValue
						av = &y
					} else {
						vv = t.AVar
					}
				}
				p.EncryptionAlgorithm.BuildTransform(t.Type, t.ID, at, av, vv)
				wp.Tr = append(wp.Tr, t)
			}
			want = ref.Payload{T: ref.PSA, SA: []ref.Proposal{wp}}
		case 1:
			name = "BuildIndividualTrafficSelector"
			ts := cont.BuildTrafficSelectorInitiator()
			want = ref.Payload{T: ref.PTSi}
			for _, i := range seq {
				s := c19Selectors[i]
				ts.TrafficSelectors.BuildIndividualTrafficSelector(s.Type, s.Proto, s.SPort, s.EPort, s.SAddr, s.EAddr)
				want.TS = append(want.TS, s)
			}
		case 2:
			name = "BuildConfigurationAttribute"
			cp := cont.BuildConfiguration(1)
			want = ref.Payload{T: ref.PCP, B: 1}
			for _, i := range seq {
				a := c19CPAttrs[i]
				cp.ConfigurationAttribute.BuildConfigurationAttribute(a.Type, a.Val)
				want.CP = append(want.CP, a)
			}
		case 4, 5:
			name = "BuildTransform(per list)"
			sa := cont.BuildSecurityAssociation()
			p := sa.Proposals.BuildProposal(1, 3, []byte{1, 2, 3, 4})
			wp := ref.Proposal{Num: 1, Proto: 3, SPI: []byte{1, 2, 3, 4}}
			lists := []*message.TransformContainer{&p.EncryptionAlgorithm, &p.PseudorandomFunction, &p.IntegrityAlgorithm, &p.DiffieHellmanGroup, &p.ExtendedSequenceNumbers}
			perType := make([][]ref.Transform, 5)
			order := []int{0, 1, 2, 3, 4}
			if kind == 5 {
				order = []int{4, 3, 2, 1, 0}
			}
			for _, li := range order {
				for k := 0; k < seq[li]; k++ {
					id := uint16(10*li + k + 1)
					lists[li].BuildTransform(uint8(li+1), id, nil, nil, nil)
					perType[li] = append(perType[li], ref.Transform{Type: uint8(li + 1), ID: id})
				}
			}
			for _, l := range perType {
				wp.Tr = append(wp.Tr, l...)
			}
			want = ref.Payload{T: ref.PSA, SA: []ref.Proposal{wp}}
		case 3:
			name = "BuildProposal"
			sa := cont.BuildSecurityAssociation()
			want = ref.Payload{T: ref.PSA}
			for _, i := range seq {
				pr := c19Proposals[i]
				p := sa.Proposals.BuildProposal(pr.Num, pr.Proto, pr.SPI)
				p.ExtendedSequenceNumbers.BuildTransform(5, 0, nil, nil, nil)
				pr.Tr = []ref.Transform{{Type: 5, ID: 0}}
				want.SA = append(want.SA, pr)
			}
		}
	})
	if pi != nil {
		c.Violate(pi.Sig(), fmt.Sprintf("%s sequence %v panics: %s", name, seq, pi.Value), cs)
		return
	}
	got := univ.ProjectPayloads(cont)
	if ref.CanonPayloads(got) != ref.CanonPayloads([]ref.Payload{want}) {
		c.Violate("nested/"+name+"/"+ref.FirstDiff([]ref.Payload{want}, got), fmt.Sprintf("%s applied %d times (%v): container %s, arguments say %s", name, len(seq), seq, trs(ref.CanonPayloads(got)), trs(want.Canon())), cs)
		return
	}
	c19Wire(c, cs, name, cont, []ref.Payload{want})
}
