package ref

import (
	"errors"
	"fmt"
)

// Liberties a sender may take under RFC 7296 (section 2.5, 3.2, 3.3): reserved
// fields with arbitrary content, the critical flag on payloads the receiver
// understands. Transform order is whatever order the descriptor lists.
type Lib struct {
	Critical uint32 `json:"crit,omitempty"` // bit i: payload i carries the critical flag
	PayRes   uint32 `json:"pres,omitempty"` // bit i: payload i has its 7 reserved generic-header bits set
	Fields   uint32 `json:"fields,omitempty"`
}

const (
	LPropRes   = 1 << iota // proposal substructure octet 1
	LTransRes1             // transform substructure octet 1
	LTransRes2             // transform substructure octet 5
	LKERes                 // KE octets 2-3
	LIDRes                 // IDi/IDr octets 1-3
	LAuthRes               // AUTH octets 1-3
	LTSRes                 // TSi/TSr octets 1-3
	LCPRes                 // CP octets 1-3
	LCPAttrR               // CP attribute R bit
	LAllFields = LPropRes | LTransRes1 | LTransRes2 | LKERes | LIDRes | LAuthRes | LTSRes | LCPRes | LCPAttrR
)

var ErrTooBig = errors.New("does not fit a length field")

func be16(v int) []byte    { return []byte{byte(v >> 8), byte(v)} }
func be32(v uint32) []byte { return []byte{byte(v >> 24), byte(v >> 16), byte(v >> 8), byte(v)} }
func be64(v uint64) []byte {
	return []byte{byte(v >> 56), byte(v >> 48), byte(v >> 40), byte(v >> 32), byte(v >> 24), byte(v >> 16), byte(v >> 8), byte(v)}
}

func resv(n int, on bool) []byte {
	b := make([]byte, n)
	if on {
		for i := range b {
			b[i] = 0xff
		}
	}
	return b
}

// EncodeBody emits the payload body (after the 4-octet generic header).
func EncodeBody(p Payload, l Lib) ([]byte, error) {
	f := l.Fields
	var o []byte
	switch p.T {
	case PSA:
		for i, pr := range p.SA {
			var tb []byte
			for j, t := range pr.Tr {
				var ab []byte
				if t.HasAttr {
					if t.AType > 0x7fff {
						return nil, fmt.Errorf("attribute type %d out of range", t.AType)
					}
					if t.TV {
						ab = append(ab, be16(int(t.AType)|0x8000)...)
						ab = append(ab, be16(int(t.AValue))...)
					} else {
						if len(t.AVar) > 0xffff {
							return nil, ErrTooBig
						}
						ab = append(ab, be16(int(t.AType))...)
						ab = append(ab, be16(len(t.AVar))...)
						ab = append(ab, t.AVar...)
					}
				}
				tl := 8 + len(ab)
				if tl > 0xffff {
					return nil, ErrTooBig
				}
				more := byte(3)
				if j == len(pr.Tr)-1 {
					more = 0
				}
				tb = append(tb, more)
				tb = append(tb, resv(1, f&LTransRes1 != 0)...)
				tb = append(tb, be16(tl)...)
				tb = append(tb, t.Type)
				tb = append(tb, resv(1, f&LTransRes2 != 0)...)
				tb = append(tb, be16(int(t.ID))...)
				tb = append(tb, ab...)
			}
			if len(pr.SPI) > 255 || len(pr.Tr) > 255 {
				return nil, ErrTooBig
			}
			pl := 8 + len(pr.SPI) + len(tb)
			if pl > 0xffff {
				return nil, ErrTooBig
			}
			more := byte(2)
			if i == len(p.SA)-1 {
				more = 0
			}
			o = append(o, more)
			o = append(o, resv(1, f&LPropRes != 0)...)
			o = append(o, be16(pl)...)
			o = append(o, pr.Num, pr.Proto, byte(len(pr.SPI)), byte(len(pr.Tr)))
			o = append(o, pr.SPI...)
			o = append(o, tb...)
		}
	case PKE:
		o = append(o, be16(int(p.Group))...)
		o = append(o, resv(2, f&LKERes != 0)...)
		o = append(o, p.Data...)
	case PIDi, PIDr:
		o = append(o, p.B)
		o = append(o, resv(3, f&LIDRes != 0)...)
		o = append(o, p.Data...)
	case PAUTH:
		o = append(o, p.B)
		o = append(o, resv(3, f&LAuthRes != 0)...)
		o = append(o, p.Data...)
	case PCERT, PCERTREQ:
		o = append(o, p.B)
		o = append(o, p.Data...)
	case PNonce, PVendor:
		o = append(o, p.Data...)
	case PNotify:
		if len(p.SPI) > 255 {
			return nil, ErrTooBig
		}
		o = append(o, p.B, byte(len(p.SPI)))
		o = append(o, be16(int(p.NType))...)
		o = append(o, p.SPI...)
		o = append(o, p.Data...)
	case PDelete:
		o = append(o, p.B, p.SSize)
		o = append(o, be16(int(p.NSPI))...)
		for _, s := range p.SPIs {
			o = append(o, be32(s)...)
		}
	case PTSi, PTSr:
		if len(p.TS) > 255 {
			return nil, ErrTooBig
		}
		o = append(o, byte(len(p.TS)))
		o = append(o, resv(3, f&LTSRes != 0)...)
		for _, s := range p.TS {
			o = append(o, s.Type, s.Proto)
			o = append(o, be16(8+len(s.SAddr)+len(s.EAddr))...)
			o = append(o, be16(int(s.SPort))...)
			o = append(o, be16(int(s.EPort))...)
			o = append(o, s.SAddr...)
			o = append(o, s.EAddr...)
		}
	case PCP:
		o = append(o, p.B)
		o = append(o, resv(3, f&LCPRes != 0)...)
		for _, a := range p.CP {
			if a.Type > 0x7fff || len(a.Val) > 0xffff {
				return nil, ErrTooBig
			}
			t := int(a.Type)
			if f&LCPAttrR != 0 {
				t |= 0x8000
			}
			o = append(o, be16(t)...)
			o = append(o, be16(len(a.Val))...)
			o = append(o, a.Val...)
		}
	case PEAP:
		e, err := EncodeEAP(p.EAP)
		if err != nil {
			return nil, err
		}
		o = e
	default:
		o = append(o, p.Data...) // SK (opaque) and unsupported payloads
	}
	return o, nil
}

// EncodeChain emits a payload chain; first is the type code that a preceding
// structure must name (0 for an empty chain).
func EncodeChain(ps []Payload, l Lib) (first uint8, out []byte, err error) {
	for i, p := range ps {
		body, err := EncodeBody(p, l)
		if err != nil {
			return 0, nil, err
		}
		if 4+len(body) > 0xffff {
			return 0, nil, ErrTooBig
		}
		next := uint8(0)
		if i+1 < len(ps) {
			next = ps[i+1].T
		}
		flags := byte(0)
		if l.Critical&(1<<uint(i)) != 0 {
			flags |= 0x80
		}
		if l.PayRes&(1<<uint(i)) != 0 {
			flags |= 0x7f
		}
		out = append(out, next, flags)
		out = append(out, be16(4+len(body))...)
		out = append(out, body...)
	}
	if len(ps) > 0 {
		first = ps[0].T
	}
	return first, out, nil
}

func EncodeHdr(h Hdr, next uint8, total int) []byte {
	var o []byte
	o = append(o, be64(h.ISPI)...)
	o = append(o, be64(h.RSPI)...)
	o = append(o, next, h.Major<<4|h.Minor&0x0f, h.Exch, h.Flags)
	o = append(o, be32(h.MsgID)...)
	o = append(o, be32(uint32(total))...)
	return o
}

// Encode emits the datagram for a message descriptor.
func Encode(m Msg, l Lib) ([]byte, error) {
	if m.H.Major > 15 || m.H.Minor > 15 {
		return nil, fmt.Errorf("version out of range")
	}
	first, chain, err := EncodeChain(m.P, l)
	if err != nil {
		return nil, err
	}
	return append(EncodeHdr(m.H, first, 28+len(chain)), chain...), nil
}

// ---------------------------------------------------------------------------
// Strict parser: accepts exactly the well-formed datagrams of C05 and returns
// the descriptor; with strictZero it additionally demands zero reserved fields
// and clear critical flags (what the library must emit).

type parseErr struct{ s string }

func (e parseErr) Error() string            { return e.s }
func perr(f string, a ...interface{}) error { return parseErr{fmt.Sprintf(f, a...)} }

func u16(b []byte) int { return int(b[0])<<8 | int(b[1]) }
func u32(b []byte) uint32 {
	return uint32(b[0])<<24 | uint32(b[1])<<16 | uint32(b[2])<<8 | uint32(b[3])
}
func u64(b []byte) uint64 { return uint64(u32(b))<<32 | uint64(u32(b[4:])) }

func allZero(b []byte) bool {
	for _, x := range b {
		if x != 0 {
			return false
		}
	}
	return true
}

// Info is what the strict parser learned besides the descriptor.
type Info struct {
	Critical    uint32
	NonZeroResv []string
	First       uint8
}

func Parse(b []byte, strictZero bool) (Msg, Info, error) {
	var m Msg
	var inf Info
	if len(b) < 28 {
		return m, inf, perr("datagram shorter than a header")
	}
	m.H = Hdr{ISPI: u64(b), RSPI: u64(b[8:]), Major: b[17] >> 4, Minor: b[17] & 15, Exch: b[18], Flags: b[19], MsgID: u32(b[20:])}
	if int64(u32(b[24:])) != int64(len(b)) {
		return m, inf, perr("header length %d ≠ datagram size %d", u32(b[24:]), len(b))
	}
	inf.First = b[16]
	ps, err := ParseChain(b[16], b[28:], strictZero, &inf)
	m.P = ps
	return m, inf, err
}

func ParseChain(first uint8, b []byte, strictZero bool, inf *Info) ([]Payload, error) {
	var ps []Payload
	next := first
	idx := 0
	for len(b) > 0 {
		if next == 0 {
			return ps, perr("chain ended (next payload 0) with %d octets left", len(b))
		}
		if len(b) < 4 {
			return ps, perr("truncated generic header")
		}
		l := u16(b[2:])
		if l < 4 || l > len(b) {
			return ps, perr("payload length %d outside [4,%d]", l, len(b))
		}
		if b[1]&0x80 != 0 {
			inf.Critical |= 1 << uint(idx)
			if strictZero {
				return ps, perr("critical flag set on payload %d (type %d)", idx, next)
			}
		}
		if b[1]&0x7f != 0 {
			inf.NonZeroResv = append(inf.NonZeroResv, "generic")
			if strictZero {
				return ps, perr("reserved bits of generic header set on payload %d", idx)
			}
		}
		p, err := ParseBody(next, b[4:l], strictZero, inf)
		if err != nil {
			return ps, fmt.Errorf("payload %d (type %d): %w", idx, next, err)
		}
		ps = append(ps, p)
		next = b[0]
		b = b[l:]
		idx++
	}
	if next != 0 {
		return ps, perr("last payload names next payload %d", next)
	}
	return ps, nil
}

func chkRes(b []byte, what string, strictZero bool, inf *Info) error {
	if !allZero(b) {
		inf.NonZeroResv = append(inf.NonZeroResv, what)
		if strictZero {
			return perr("reserved field %s not zero", what)
		}
	}
	return nil
}

func ParseBody(t uint8, b []byte, strictZero bool, inf *Info) (Payload, error) {
	p := Payload{T: t}
	switch t {
	case PSA:
		last := false
		for len(b) > 0 {
			if last {
				return p, perr("proposal after the last proposal")
			}
			if len(b) < 8 {
				return p, perr("truncated proposal")
			}
			pl := u16(b[2:])
			if pl < 8 || pl > len(b) {
				return p, perr("proposal length %d", pl)
			}
			switch b[0] {
			case 0:
				last = true
			case 2:
			default:
				return p, perr("proposal 'more' octet %d", b[0])
			}
			if err := chkRes(b[1:2], "proposal", strictZero, inf); err != nil {
				return p, err
			}
			pr := Proposal{Num: b[4], Proto: b[5]}
			ss, nt := int(b[6]), int(b[7])
			if 8+ss > pl {
				return p, perr("SPI size %d exceeds proposal", ss)
			}
			pr.SPI = append([]byte(nil), b[8:8+ss]...)
			tb := b[8+ss : pl]
			tlast := false
			for len(tb) > 0 {
				if tlast {
					return p, perr("transform after the last transform")
				}
				if len(tb) < 8 {
					return p, perr("truncated transform")
				}
				tl := u16(tb[2:])
				if tl < 8 || tl > len(tb) {
					return p, perr("transform length %d", tl)
				}
				switch tb[0] {
				case 0:
					tlast = true
				case 3:
				default:
					return p, perr("transform 'more' octet %d", tb[0])
				}
				if err := chkRes(tb[1:2], "transform1", strictZero, inf); err != nil {
					return p, err
				}
				if err := chkRes(tb[5:6], "transform2", strictZero, inf); err != nil {
					return p, err
				}
				tr := Transform{Type: tb[4], ID: uint16(u16(tb[6:]))}
				ab := tb[8:tl]
				if len(ab) > 0 {
					if len(ab) < 4 {
						return p, perr("truncated attribute")
					}
					tr.HasAttr = true
					tr.AType = uint16(u16(ab)) & 0x7fff
					if ab[0]&0x80 != 0 {
						tr.TV = true
						tr.AValue = uint16(u16(ab[2:]))
						if len(ab) != 4 {
							return p, perr("more than one attribute (unsupported by the data model)")
						}
					} else {
						al := u16(ab[2:])
						if 4+al != len(ab) {
							return p, perr("attribute length %d ≠ extent %d", al, len(ab)-4)
						}
						tr.AVar = append([]byte(nil), ab[4:]...)
					}
				}
				pr.Tr = append(pr.Tr, tr)
				tb = tb[tl:]
			}
			if !tlast && len(pr.Tr) > 0 {
				return p, perr("last transform not marked 0")
			}
			if len(pr.Tr) != nt {
				return p, perr("transform count %d ≠ %d", nt, len(pr.Tr))
			}
			p.SA = append(p.SA, pr)
			b = b[pl:]
		}
		if !last && len(p.SA) > 0 {
			return p, perr("last proposal not marked 0")
		}
	case PKE:
		if len(b) < 4 {
			return p, perr("KE too short")
		}
		p.Group = uint16(u16(b))
		if err := chkRes(b[2:4], "ke", strictZero, inf); err != nil {
			return p, err
		}
		p.Data = append([]byte(nil), b[4:]...)
	case PIDi, PIDr, PAUTH:
		if len(b) < 4 {
			return p, perr("ID/AUTH too short")
		}
		p.B = b[0]
		w := "id"
		if t == PAUTH {
			w = "auth"
		}
		if err := chkRes(b[1:4], w, strictZero, inf); err != nil {
			return p, err
		}
		p.Data = append([]byte(nil), b[4:]...)
	case PCERT, PCERTREQ:
		if len(b) < 1 {
			return p, perr("CERT too short")
		}
		p.B = b[0]
		p.Data = append([]byte(nil), b[1:]...)
	case PNonce, PVendor:
		p.Data = append([]byte(nil), b...)
	case PNotify:
		if len(b) < 4 {
			return p, perr("Notify too short")
		}
		p.B = b[0]
		ss := int(b[1])
		p.NType = uint16(u16(b[2:]))
		if 4+ss > len(b) {
			return p, perr("Notify SPI size %d exceeds payload", ss)
		}
		p.SPI = append([]byte(nil), b[4:4+ss]...)
		p.Data = append([]byte(nil), b[4+ss:]...)
	case PDelete:
		if len(b) < 4 {
			return p, perr("Delete too short")
		}
		p.B, p.SSize, p.NSPI = b[0], b[1], uint16(u16(b[2:]))
		if int(p.SSize)*int(p.NSPI) != len(b)-4 {
			return p, perr("Delete SPI area %d ≠ %d×%d", len(b)-4, p.SSize, p.NSPI)
		}
		if p.NSPI > 0 && p.SSize != 4 {
			return p, perr("Delete SPI size %d not representable", p.SSize)
		}
		for i := 4; i+4 <= len(b); i += 4 {
			p.SPIs = append(p.SPIs, u32(b[i:]))
		}
	case PTSi, PTSr:
		if len(b) < 4 {
			return p, perr("TS too short")
		}
		n := int(b[0])
		if err := chkRes(b[1:4], "ts", strictZero, inf); err != nil {
			return p, err
		}
		b = b[4:]
		for i := 0; i < n; i++ {
			if len(b) < 8 {
				return p, perr("truncated selector")
			}
			sl := u16(b[2:])
			if sl > len(b) || sl < 8 || (sl-8)%2 != 0 {
				return p, perr("selector length %d", sl)
			}
			al := (sl - 8) / 2
			if (b[0] == 7 && al != 4) || (b[0] == 8 && al != 16) {
				return p, perr("selector type %d with %d-octet addresses", b[0], al)
			}
			s := Selector{Type: b[0], Proto: b[1], SPort: uint16(u16(b[4:])), EPort: uint16(u16(b[6:]))}
			s.SAddr = append([]byte(nil), b[8:8+al]...)
			s.EAddr = append([]byte(nil), b[8+al:sl]...)
			p.TS = append(p.TS, s)
			b = b[sl:]
		}
		if len(b) != 0 {
			return p, perr("%d octets after the last selector", len(b))
		}
	case PCP:
		if len(b) < 4 {
			return p, perr("CP too short")
		}
		p.B = b[0]
		if err := chkRes(b[1:4], "cp", strictZero, inf); err != nil {
			return p, err
		}
		b = b[4:]
		for len(b) > 0 {
			if len(b) < 4 {
				return p, perr("truncated CP attribute")
			}
			if b[0]&0x80 != 0 {
				inf.NonZeroResv = append(inf.NonZeroResv, "cpattr")
				if strictZero {
					return p, perr("CP attribute R bit set")
				}
			}
			al := u16(b[2:])
			if 4+al > len(b) {
				return p, perr("CP attribute length %d", al)
			}
			p.CP = append(p.CP, CPAttr{Type: uint16(u16(b)) & 0x7fff, Val: append([]byte(nil), b[4:4+al]...)})
			b = b[4+al:]
		}
	case PEAP:
		e, err := ParseEAP(b)
		if err != nil {
			return p, err
		}
		p.EAP = e
	default:
		p.Data = append([]byte(nil), b...)
	}
	return p, nil
}
