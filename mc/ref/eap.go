package ref

import "fmt"

// EAP-AKA' attribute type codes (RFC 4187 section 11, RFC 5448 section 3).
const (
	AtRAND      = 1
	AtAUTN      = 2
	AtRES       = 3
	AtMAC       = 11
	AtKDFInput  = 23
	AtKDF       = 24
	AtCheckcode = 134
)

var AKASettable = []uint8{AtRAND, AtAUTN, AtRES, AtMAC, AtKDF, AtKDFInput, AtCheckcode}

// EncodeAKAAttr emits one attribute (RFC 4187 section 8.1 / 10.x, RFC 5448 3.1/3.2).
// AT_RES and AT_KDF_INPUT carry the exact value length in bits in octets 2-3
// (as the property statement prescribes) and zero padding to a 4-octet boundary.
func EncodeAKAAttr(a AKAAttr) ([]byte, error) {
	var o []byte
	switch a.T {
	case AtRAND, AtAUTN, AtMAC:
		if len(a.V) != 16 {
			return nil, fmt.Errorf("attribute %d needs 16 octets", a.T)
		}
		o = append([]byte{a.T, 5, 0, 0}, a.V...)
	case AtRES, AtKDFInput:
		pad := (4 - len(a.V)%4) % 4
		words := (4 + len(a.V) + pad) / 4
		if words > 255 {
			return nil, ErrTooBig
		}
		o = append([]byte{a.T, byte(words)}, be16(len(a.V)*8)...)
		o = append(o, a.V...)
		o = append(o, make([]byte, pad)...)
	case AtKDF:
		if len(a.V) != 2 {
			return nil, fmt.Errorf("AT_KDF needs 2 octets")
		}
		o = append([]byte{a.T, 1}, a.V...)
	case AtCheckcode:
		if len(a.V)%4 != 0 {
			return nil, fmt.Errorf("checkcode not aligned")
		}
		o = append([]byte{a.T, byte((4 + len(a.V)) / 4), 0, 0}, a.V...)
	default:
		// generic attribute: 2 octets of header, value padded by the caller
		if (2+len(a.V))%4 != 0 {
			return nil, fmt.Errorf("generic attribute not aligned")
		}
		o = append([]byte{a.T, byte((2 + len(a.V)) / 4)}, a.V...)
	}
	return o, nil
}

// EncodeEAP emits an EAP packet; AKA' attributes are emitted in the order listed.
func EncodeEAP(e *EAP) ([]byte, error) {
	if e == nil {
		return nil, fmt.Errorf("nil EAP")
	}
	var d []byte
	switch e.Method {
	case 0:
	case 1, 2, 3:
		d = append([]byte{e.Method}, e.Data...)
	case 254:
		if e.VID > 0xffffff {
			return nil, fmt.Errorf("vendor id out of range")
		}
		d = append(d, 254, byte(e.VID>>16), byte(e.VID>>8), byte(e.VID))
		d = append(d, be32(e.VType)...)
		d = append(d, e.Data...)
	case 50:
		d = append(d, 50, e.Sub, 0, 0)
		for _, a := range e.AKA {
			ab, err := EncodeAKAAttr(a)
			if err != nil {
				return nil, err
			}
			d = append(d, ab...)
		}
	default:
		d = append([]byte{e.Method}, e.Data...)
	}
	if 4+len(d) > 0xffff {
		return nil, ErrTooBig
	}
	o := append([]byte{e.Code, e.ID}, be16(4+len(d))...)
	return append(o, d...), nil
}

// ParseEAP is the strict reader: length field = size, Success/Failure bare,
// and for EAP-AKA' every attribute 4-aligned with word length, zero padding and
// exact bit length.
func ParseEAP(b []byte) (*EAP, error) { return ParseEAPOpt(b, false) }

// ParseEAPOpt: with spareWords, AT_RES / AT_KDF_INPUT may reserve whole zero words beyond the value (a sender is
// free to do so; everything else stays strict).
func ParseEAPOpt(b []byte, spareWords bool) (*EAP, error) {
	if len(b) < 4 {
		return nil, perr("EAP shorter than its header")
	}
	if u16(b[2:]) != len(b) {
		return nil, perr("EAP length field %d ≠ packet size %d", u16(b[2:]), len(b))
	}
	e := &EAP{Code: b[0], ID: b[1]}
	if (e.Code == 3 || e.Code == 4) && len(b) != 4 {
		return nil, perr("EAP Success/Failure carries data")
	}
	if len(b) == 4 {
		return e, nil
	}
	e.Method = b[4]
	d := b[5:]
	switch e.Method {
	case 254:
		if len(d) < 7 {
			return nil, perr("expanded type too short")
		}
		e.VID = uint32(d[0])<<16 | uint32(d[1])<<8 | uint32(d[2])
		e.VType = u32(d[3:])
		e.Data = append([]byte(nil), d[7:]...)
	case 50:
		if len(d) < 3 {
			return nil, perr("AKA' header too short")
		}
		e.Sub = d[0]
		if (d[1] != 0 || d[2] != 0) && !spareWords {
			// (not demanded of a packet that merely echoes what a foreign sender put there)
			return nil, perr("AKA' reserved not zero")
		}
		at, err := ParseAKAAttrsOpt(d[3:], spareWords)
		if err != nil {
			return nil, err
		}
		e.AKA = at
	default:
		e.Data = append([]byte(nil), d...)
	}
	return e, nil
}

// AKASpan locates one attribute inside the attribute area.
type AKASpan struct {
	T        uint8
	Off, Len int // of the whole attribute
}

func AKASpans(b []byte) ([]AKASpan, error) {
	var sp []AKASpan
	off := 0
	for off < len(b) {
		if len(b)-off < 2 {
			return nil, perr("truncated attribute header")
		}
		l := int(b[off+1]) * 4
		if l == 0 || off+l > len(b) {
			return nil, perr("attribute %d length %d words exceeds packet", b[off], b[off+1])
		}
		sp = append(sp, AKASpan{b[off], off, l})
		off += l
	}
	return sp, nil
}

func ParseAKAAttrs(b []byte) ([]AKAAttr, error) { return ParseAKAAttrsOpt(b, false) }

func ParseAKAAttrsOpt(b []byte, spareWords bool) ([]AKAAttr, error) {
	sp, err := AKASpans(b)
	if err != nil {
		return nil, err
	}
	var out []AKAAttr
	for _, s := range sp {
		a := b[s.Off : s.Off+s.Len]
		switch s.T {
		case AtRAND, AtAUTN, AtMAC:
			if s.Len != 20 {
				return nil, perr("attribute %d must be 5 words", s.T)
			}
			if (a[2] != 0 || a[3] != 0) && !spareWords {
				return nil, perr("attribute %d reserved not zero", s.T)
			}
			out = append(out, AKAAttr{s.T, append([]byte(nil), a[4:]...)})
		case AtRES, AtKDFInput:
			if s.Len < 4 {
				return nil, perr("attribute %d too short", s.T)
			}
			bits := u16(a[2:])
			if bits%8 != 0 {
				return nil, perr("attribute %d bit length %d not octet aligned", s.T, bits)
			}
			n := bits / 8
			if 4+n > s.Len || (s.Len-4-n > 3 && !spareWords) {
				return nil, perr("attribute %d: %d value octets do not fit %d words minimally", s.T, n, s.Len/4)
			}
			if !allZero(a[4+n:]) {
				return nil, perr("attribute %d padding not zero", s.T)
			}
			out = append(out, AKAAttr{s.T, append([]byte(nil), a[4:4+n]...)})
		case AtKDF:
			if s.Len != 4 {
				return nil, perr("AT_KDF must be 1 word")
			}
			out = append(out, AKAAttr{s.T, append([]byte(nil), a[2:]...)})
		case AtCheckcode:
			if s.Len < 4 || ((a[2] != 0 || a[3] != 0) && !spareWords) {
				return nil, perr("AT_CHECKCODE malformed")
			}
			out = append(out, AKAAttr{s.T, append([]byte(nil), a[4:]...)})
		default:
			out = append(out, AKAAttr{s.T, append([]byte(nil), a[2:]...)})
		}
	}
	return out, nil
}

// AtMAC computes HMAC-SHA-256-128 over the EAP packet as on the wire with the
// value field of every AT_MAC attribute zeroed (RFC 4187 10.15, RFC 5448 3.4.1).
func AtMACOverWire(key, packet []byte) ([]byte, error) {
	if len(packet) < 8 || packet[4] != 50 {
		return nil, perr("not an EAP-AKA' packet")
	}
	p := append([]byte(nil), packet...)
	sp, err := AKASpans(p[8:])
	if err != nil {
		return nil, err
	}
	for _, s := range sp {
		if s.T == AtMAC && s.Len == 20 {
			for i := 8 + s.Off + 4; i < 8+s.Off+20; i++ {
				p[i] = 0
			}
		}
	}
	return HMAC("sha256", key, p)[:16], nil
}

// PRFPrime is PRF' of RFC 5448 section 3.4.1: T1 = HMAC(K, S|0x01), Tn = HMAC(K, Tn-1|S|n).
func PRFPrime(k, s []byte, n int) []byte {
	var out, prev []byte
	for i := 1; len(out) < n; i++ {
		in := append(append(append([]byte(nil), prev...), s...), byte(i))
		prev = HMAC("sha256", k, in)
		out = append(out, prev...)
	}
	return out[:n]
}

// AKAPrimeKeys returns K_encr, K_aut, K_re, MSK, EMSK (RFC 5448 section 3.3).
func AKAPrimeKeys(ik, ck []byte, identity []byte) (kencr, kaut, kre, msk, emsk []byte) {
	k := append(append([]byte(nil), ik...), ck...)
	s := append([]byte("EAP-AKA'"), identity...)
	mk := PRFPrime(k, s, 208)
	return mk[0:16], mk[16:48], mk[48:80], mk[80:144], mk[144:208]
}
