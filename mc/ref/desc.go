// Package ref is the independent reference model: an RFC 7296 message codec
// (canonical + liberal encoder, strict parser), the SK payload of section 3.14,
// key derivation (prf, prf+, SKEYSEED, KEYMAT), MODP groups recomputed from
// their defining formulae, EAP / EAP-AKA' framing, AT_MAC and PRF'.
// It shares no code and no data types with the library under test.
package ref

import (
	"fmt"
	"sort"
	"strings"
)

// Payload type codes (RFC 7296 section 3.2).
const (
	PSA      = 33
	PKE      = 34
	PIDi     = 35
	PIDr     = 36
	PCERT    = 37
	PCERTREQ = 38
	PAUTH    = 39
	PNonce   = 40
	PNotify  = 41
	PDelete  = 42
	PVendor  = 43
	PTSi     = 44
	PTSr     = 45
	PSK      = 46
	PCP      = 47
	PEAP     = 48
)

func Supported(t uint8) bool { return t >= 33 && t <= 48 }

type Hdr struct {
	ISPI  uint64 `json:"ispi"`
	RSPI  uint64 `json:"rspi"`
	Major uint8  `json:"maj"`
	Minor uint8  `json:"min"`
	Exch  uint8  `json:"exch"`
	Flags uint8  `json:"flags"`
	MsgID uint32 `json:"mid"`
}

type Transform struct {
	Type    uint8  `json:"t"`
	ID      uint16 `json:"id"`
	HasAttr bool   `json:"a,omitempty"`
	TV      bool   `json:"tv,omitempty"` // attribute format: true = TV (fixed 2-octet value), false = TLV
	AType   uint16 `json:"at,omitempty"`
	AValue  uint16 `json:"av,omitempty"`
	AVar    []byte `json:"avar,omitempty"`
}

type Proposal struct {
	Num   uint8       `json:"n"`
	Proto uint8       `json:"p"`
	SPI   []byte      `json:"spi,omitempty"`
	Tr    []Transform `json:"tr"`
}

type Selector struct {
	Type  uint8  `json:"t"`
	Proto uint8  `json:"p"`
	SPort uint16 `json:"sp"`
	EPort uint16 `json:"ep"`
	SAddr []byte `json:"sa"`
	EAddr []byte `json:"ea"`
}

type CPAttr struct {
	Type uint16 `json:"t"`
	Val  []byte `json:"v,omitempty"`
}

type AKAAttr struct {
	T uint8  `json:"t"`
	V []byte `json:"v"`
}

type EAP struct {
	Code   uint8     `json:"code"`
	ID     uint8     `json:"id"`
	Method uint8     `json:"m"` // 0 = no type data; 1,2,3; 50 AKA'; 254 expanded
	Data   []byte    `json:"d,omitempty"`
	VID    uint32    `json:"vid,omitempty"`
	VType  uint32    `json:"vt,omitempty"`
	Sub    uint8     `json:"sub,omitempty"`
	AKA    []AKAAttr `json:"aka,omitempty"` // in the order they were set / appear on the wire
}

// Payload is a flat descriptor; which fields are meaningful depends on T.
type Payload struct {
	T     uint8      `json:"t"`
	SA    []Proposal `json:"sa,omitempty"`
	Group uint16     `json:"g,omitempty"`    // KE
	B     uint8      `json:"b,omitempty"`    // ID type / auth method / cert encoding / CP type / protocol id (N, D)
	Data  []byte     `json:"d,omitempty"`    // KE, ID, AUTH, CERT, CERTREQ, Nonce, Vendor, Notify data, raw body of unsupported
	SPI   []byte     `json:"spi,omitempty"`  // Notify
	NType uint16     `json:"nt,omitempty"`   // Notify
	SSize uint8      `json:"ss,omitempty"`   // Delete
	NSPI  uint16     `json:"ns,omitempty"`   // Delete
	SPIs  []uint32   `json:"spis,omitempty"` // Delete
	TS    []Selector `json:"ts,omitempty"`
	CP    []CPAttr   `json:"cp,omitempty"`
	EAP   *EAP       `json:"eap,omitempty"`
}

type Msg struct {
	H Hdr       `json:"h"`
	P []Payload `json:"p"`
}

func hx(b []byte) string {
	if len(b) > 40 {
		return fmt.Sprintf("%x..(%d)..%x", b[:8], len(b), sumBytes(b))
	}
	return fmt.Sprintf("%x", b)
}

func sumBytes(b []byte) [8]byte {
	// position-sensitive digest (independent of crypto; used only to shorten canonical forms)
	var s [8]byte
	var a, c uint64 = 1469598103934665603, 7
	for i, x := range b {
		a = (a ^ uint64(x)) * 1099511628211
		c = c*31 + uint64(x)*uint64(i+1)
	}
	for i := 0; i < 4; i++ {
		s[i] = byte(a >> (8 * i))
		s[4+i] = byte(c >> (8 * i))
	}
	return s
}

func (h Hdr) Canon() string {
	return fmt.Sprintf("H{%016x %016x v%d.%d x%d f%02x m%d}", h.ISPI, h.RSPI, h.Major, h.Minor, h.Exch, h.Flags, h.MsgID)
}

func (t Transform) Canon() string {
	s := fmt.Sprintf("T%d/%d", t.Type, t.ID)
	if t.HasAttr {
		if t.TV {
			s += fmt.Sprintf("[tv %d=%d]", t.AType, t.AValue)
		} else {
			s += fmt.Sprintf("[tlv %d=%s]", t.AType, hx(t.AVar))
		}
	}
	return s
}

// Canon of a proposal compares transforms per transform type (order inside a type
// is significant, order across types is not: RFC 7296 fixes none and the library's
// data model holds five per-type lists).
func (p Proposal) Canon() string {
	var sb strings.Builder
	fmt.Fprintf(&sb, "P{#%d proto%d spi=%s", p.Num, p.Proto, hx(p.SPI))
	idx := make([]int, len(p.Tr))
	for i := range idx {
		idx[i] = i
	}
	sort.SliceStable(idx, func(a, b int) bool { return p.Tr[idx[a]].Type < p.Tr[idx[b]].Type })
	for _, i := range idx {
		sb.WriteString(" " + p.Tr[i].Canon())
	}
	sb.WriteString("}")
	return sb.String()
}

func (e *EAP) Canon() string {
	if e == nil {
		return "EAP{nil}"
	}
	s := fmt.Sprintf("EAP{c%d i%d m%d", e.Code, e.ID, e.Method)
	switch e.Method {
	case 0:
	case 1, 2, 3:
		s += " d=" + hx(e.Data)
	case 254:
		s += fmt.Sprintf(" vid=%d vt=%d d=%s", e.VID, e.VType, hx(e.Data))
	case 50:
		s += fmt.Sprintf(" sub=%d", e.Sub)
		at := append([]AKAAttr(nil), e.AKA...)
		sort.SliceStable(at, func(a, b int) bool { return at[a].T < at[b].T })
		for _, a := range at {
			s += fmt.Sprintf(" at%d=%s", a.T, hx(a.V))
		}
	default:
		s += " d=" + hx(e.Data)
	}
	return s + "}"
}

func (p Payload) Canon() string {
	switch p.T {
	case PSA:
		s := "SA{"
		for _, pr := range p.SA {
			s += pr.Canon()
		}
		return s + "}"
	case PKE:
		return fmt.Sprintf("KE{g%d %s}", p.Group, hx(p.Data))
	case PIDi, PIDr, PAUTH, PCERT, PCERTREQ:
		return fmt.Sprintf("%d{b%d %s}", p.T, p.B, hx(p.Data))
	case PNonce, PVendor:
		return fmt.Sprintf("%d{%s}", p.T, hx(p.Data))
	case PNotify:
		return fmt.Sprintf("N{p%d t%d spi=%s d=%s}", p.B, p.NType, hx(p.SPI), hx(p.Data))
	case PDelete:
		return fmt.Sprintf("D{p%d s%d n%d %v}", p.B, p.SSize, p.NSPI, p.SPIs)
	case PTSi, PTSr:
		s := fmt.Sprintf("TS%d{", p.T)
		for _, t := range p.TS {
			s += fmt.Sprintf("(%d %d %d-%d %x-%x)", t.Type, t.Proto, t.SPort, t.EPort, t.SAddr, t.EAddr)
		}
		return s + "}"
	case PCP:
		s := fmt.Sprintf("CP{t%d", p.B)
		for _, a := range p.CP {
			s += fmt.Sprintf(" %d=%s", a.Type, hx(a.Val))
		}
		return s + "}"
	case PEAP:
		return p.EAP.Canon()
	case PSK:
		return fmt.Sprintf("SK{%s}", hx(p.Data))
	}
	return fmt.Sprintf("U%d{%s}", p.T, hx(p.Data))
}

func CanonPayloads(ps []Payload) string {
	var sb strings.Builder
	for i, p := range ps {
		if i > 0 {
			sb.WriteByte(' ')
		}
		sb.WriteString(p.Canon())
	}
	return sb.String()
}

func (m Msg) Canon() string { return m.H.Canon() + " [" + CanonPayloads(m.P) + "]" }

// Name is a short label of a payload kind for signatures.
func Name(t uint8) string {
	switch t {
	case PSA:
		return "SA"
	case PKE:
		return "KE"
	case PIDi:
		return "IDi"
	case PIDr:
		return "IDr"
	case PCERT:
		return "CERT"
	case PCERTREQ:
		return "CERTREQ"
	case PAUTH:
		return "AUTH"
	case PNonce:
		return "Nonce"
	case PNotify:
		return "N"
	case PDelete:
		return "D"
	case PVendor:
		return "V"
	case PTSi:
		return "TSi"
	case PTSr:
		return "TSr"
	case PSK:
		return "SK"
	case PCP:
		return "CP"
	case PEAP:
		return "EAP"
	}
	return fmt.Sprintf("U%d", t)
}

// FirstDiff names the first payload (by kind) in which two canonical payload lists differ.
func FirstDiff(a, b []Payload) string {
	n := len(a)
	if len(b) < n {
		n = len(b)
	}
	for i := 0; i < n; i++ {
		if a[i].Canon() != b[i].Canon() {
			if a[i].T != b[i].T {
				return "kind"
			}
			return Name(a[i].T) + "/" + diffField(a[i], b[i])
		}
	}
	if len(a) != len(b) {
		return "count"
	}
	return ""
}

func diffField(a, b Payload) string {
	eq := func(x, y []byte) bool { return string(x) == string(y) }
	switch a.T {
	case PSA:
		if len(a.SA) != len(b.SA) {
			return "proposals"
		}
		for i := range a.SA {
			p, q := a.SA[i], b.SA[i]
			if p.Num != q.Num || p.Proto != q.Proto {
				return "proposal.header"
			}
			if !eq(p.SPI, q.SPI) {
				return "proposal.spi"
			}
			if len(p.Tr) != len(q.Tr) {
				return "transform.count"
			}
			if p.Canon() != q.Canon() {
				// find which attribute aspect
				pa, qa := sortedTr(p.Tr), sortedTr(q.Tr)
				for j := range pa {
					x, y := pa[j], qa[j]
					switch {
					case x.Type != y.Type || x.ID != y.ID:
						return "transform.id"
					case x.HasAttr != y.HasAttr:
						return "transform.attrPresent"
					case x.TV != y.TV:
						return "transform.attrFormat"
					case x.AType != y.AType:
						return "transform.attrType"
					case x.TV && x.AValue != y.AValue:
						return "transform.attrValue"
					case !x.TV && x.HasAttr && !eq(x.AVar, y.AVar):
						return "transform.attrTLVValue"
					}
				}
				return "transform"
			}
		}
	case PNotify:
		switch {
		case a.B != b.B || a.NType != b.NType:
			return "header"
		case !eq(a.SPI, b.SPI):
			return "spi"
		default:
			return "data"
		}
	case PCP:
		if a.B != b.B {
			return "type"
		}
		if len(a.CP) != len(b.CP) {
			return "attr.count"
		}
		for i := range a.CP {
			if a.CP[i].Type != b.CP[i].Type {
				return "attr.type"
			}
			if !eq(a.CP[i].Val, b.CP[i].Val) {
				return "attr.value"
			}
		}
	case PEAP:
		x, y := a.EAP, b.EAP
		if x == nil || y == nil {
			return "nil"
		}
		if x.Code != y.Code || x.ID != y.ID {
			return "header"
		}
		if x.Method != y.Method {
			return "method"
		}
		if x.Method == 50 {
			if x.Sub != y.Sub {
				return "aka.subtype"
			}
			xm, ym := map[uint8]string{}, map[uint8]string{}
			for _, t := range x.AKA {
				xm[t.T] = string(t.V)
			}
			for _, t := range y.AKA {
				ym[t.T] = string(t.V)
			}
			for t := 0; t < 256; t++ {
				xv, xo := xm[uint8(t)]
				yv, yo := ym[uint8(t)]
				if xo != yo {
					return fmt.Sprintf("aka.at%d.presence", t)
				}
				if xv != yv {
					if strings.HasPrefix(yv, xv) || strings.HasPrefix(xv, yv) {
						return fmt.Sprintf("aka.at%d.value.padding", t)
					}
					return fmt.Sprintf("aka.at%d.value", t)
				}
			}
		}
		return "data"
	case PDelete:
		return "fields"
	case PTSi, PTSr:
		return "selectors"
	}
	if a.B != b.B || a.Group != b.Group {
		return "header"
	}
	return "data"
}

func sortedTr(t []Transform) []Transform {
	o := append([]Transform(nil), t...)
	sort.SliceStable(o, func(a, b int) bool { return o[a].Type < o[b].Type })
	return o
}
