package ref

import (
	"crypto/aes"
	"crypto/md5"
	"crypto/sha1"
	"crypto/sha256"
	"fmt"
	"hash"
	"math/big"
	"sync"
)

// ---- HMAC (RFC 2104), written over the bare digests -------------------------

func digest(name string) (func() hash.Hash, int) {
	switch name {
	case "md5":
		return md5.New, 64
	case "sha1":
		return sha1.New, 64
	case "sha256":
		return sha256.New, 64
	}
	panic("unknown digest " + name)
}

func HMAC(name string, key, msg []byte) []byte {
	nh, bs := digest(name)
	k := append([]byte(nil), key...)
	if len(k) > bs {
		h := nh()
		h.Write(k)
		k = h.Sum(nil)
	}
	k = append(k, make([]byte, bs-len(k))...)
	ipad, opad := make([]byte, bs), make([]byte, bs)
	for i := range k {
		ipad[i] = k[i] ^ 0x36
		opad[i] = k[i] ^ 0x5c
	}
	h := nh()
	h.Write(ipad)
	h.Write(msg)
	inner := h.Sum(nil)
	h = nh()
	h.Write(opad)
	h.Write(inner)
	return h.Sum(nil)
}

// ---- algorithm tables (RFC 3602, 2403, 2404, 4868, 7296; IANA ikev2-parameters)

type PRFAlg struct {
	ID     uint16
	Digest string
	KeyLen int // preferred key length = output length
}

type IntegAlg struct {
	ID     uint16
	Digest string
	KeyLen int
	OutLen int
}

var PRFs = []PRFAlg{{1, "md5", 16}, {2, "sha1", 20}, {5, "sha256", 32}}
var Integs = []IntegAlg{{1, "md5", 16, 12}, {2, "sha1", 20, 12}, {12, "sha256", 32, 16}}
var EncrKeyLens = []int{16, 24, 32} // ENCR_AES_CBC = 12 with key-length attribute 128/192/256

const EncrAESCBC = 12

func PRFByID(id uint16) *PRFAlg {
	for i := range PRFs {
		if PRFs[i].ID == id {
			return &PRFs[i]
		}
	}
	return nil
}

func IntegByID(id uint16) *IntegAlg {
	for i := range Integs {
		if Integs[i].ID == id {
			return &Integs[i]
		}
	}
	return nil
}

// ---- prf+ (RFC 7296 section 2.13) -------------------------------------------

func PRFPlus(p PRFAlg, key, seed []byte, n int) []byte {
	var out, t []byte
	for i := 1; len(out) < n; i++ {
		if i > 255 {
			panic("prf+ overflow")
		}
		in := append(append(append([]byte(nil), t...), seed...), byte(i))
		t = HMAC(p.Digest, key, in)
		out = append(out, t...)
	}
	return out[:n]
}

// IKEKeys are the seven keys of RFC 7296 section 2.14.
type IKEKeys struct {
	SKd, SKai, SKar, SKei, SKer, SKpi, SKpr []byte
	SKEYSEED                                []byte
}

func DeriveIKE(p PRFAlg, ig IntegAlg, encrKeyLen int, nonces, shared []byte, spiI, spiR uint64) IKEKeys {
	var k IKEKeys
	k.SKEYSEED = HMAC(p.Digest, nonces, shared)
	seed := append(append(append([]byte(nil), nonces...), be64(spiI)...), be64(spiR)...)
	total := 3*p.KeyLen + 2*ig.KeyLen + 2*encrKeyLen
	ks := PRFPlus(p, k.SKEYSEED, seed, total)
	take := func(n int) []byte { r := ks[:n]; ks = ks[n:]; return r }
	k.SKd = take(p.KeyLen)
	k.SKai = take(ig.KeyLen)
	k.SKar = take(ig.KeyLen)
	k.SKei = take(encrKeyLen)
	k.SKer = take(encrKeyLen)
	k.SKpi = take(p.KeyLen)
	k.SKpr = take(p.KeyLen)
	return k
}

// ChildKeys: KEYMAT = prf+(SK_d, Ni|Nr) sliced ei, ai, er, ar (RFC 7296 section 2.17).
func ChildKeys(p PRFAlg, skd, nonces []byte, encrLen, integLen int) (ei, ai, er, ar []byte) {
	ks := PRFPlus(p, skd, nonces, 2*(encrLen+integLen))
	take := func(n int) []byte { r := ks[:n]; ks = ks[n:]; return r }
	return take(encrLen), take(integLen), take(encrLen), take(integLen)
}

// ---- AES-CBC written over the block primitive --------------------------------

func CBCEncrypt(key, iv, pt []byte) []byte {
	blk, err := aes.NewCipher(key)
	if err != nil {
		panic(err)
	}
	if len(pt)%16 != 0 || len(iv) != 16 {
		panic("cbc: unaligned")
	}
	out := make([]byte, len(pt))
	prev := iv
	for i := 0; i < len(pt); i += 16 {
		var x [16]byte
		for j := 0; j < 16; j++ {
			x[j] = pt[i+j] ^ prev[j]
		}
		blk.Encrypt(out[i:i+16], x[:])
		prev = out[i : i+16]
	}
	return out
}

func CBCDecrypt(key, iv, ct []byte) []byte {
	blk, err := aes.NewCipher(key)
	if err != nil {
		panic(err)
	}
	if len(ct)%16 != 0 || len(iv) != 16 {
		panic("cbc: unaligned")
	}
	out := make([]byte, len(ct))
	prev := iv
	for i := 0; i < len(ct); i += 16 {
		var x [16]byte
		blk.Decrypt(x[:], ct[i:i+16])
		for j := 0; j < 16; j++ {
			out[i+j] = x[j] ^ prev[j]
		}
		prev = ct[i : i+16]
	}
	return out
}

// ---- SK payload (RFC 7296 section 3.14) ---------------------------------------

// Suite fixes encryption key length and integrity algorithm of an IKE SA.
type Suite struct {
	EncrKeyLen int
	Integ      IntegAlg
}

func Suites() []Suite {
	var s []Suite
	for _, e := range EncrKeyLens {
		for _, i := range Integs {
			s = append(s, Suite{e, i})
		}
	}
	return s
}

func (s Suite) String() string {
	return fmt.Sprintf("AES-CBC-%d/HMAC-%s-%d", s.EncrKeyLen*8, s.Integ.Digest, s.Integ.OutLen*8)
}

// Protect builds the protected datagram from a descriptor with explicit IV and
// padding (pad: the pad octets, without the pad-length octet).
func Protect(s Suite, ske, ska []byte, m Msg, l Lib, iv, pad []byte) ([]byte, error) {
	return ProtectOuter(s, ske, ska, m, l, iv, pad, nil, Lib{})
}

// ProtectOuter additionally places cleartext payloads (e.g. unsupported ones) in the outer chain in
// front of the SK payload; the checksum covers them like everything else before it.
func ProtectOuter(s Suite, ske, ska []byte, m Msg, l Lib, iv, pad []byte, outer []Payload, ol Lib) ([]byte, error) {
	first, inner, err := EncodeChain(m.P, l)
	if err != nil {
		return nil, err
	}
	if (len(inner)+len(pad)+1)%16 != 0 || len(pad) > 255 {
		return nil, fmt.Errorf("illegal pad length %d for %d inner octets", len(pad), len(inner))
	}
	pt := append(append(append([]byte(nil), inner...), pad...), byte(len(pad)))
	ct := CBCEncrypt(ske, iv, pt)
	skLen := 4 + 16 + len(ct) + s.Integ.OutLen
	if skLen > 0xffff {
		return nil, ErrTooBig
	}
	var pre []byte
	firstOuter := uint8(PSK)
	if len(outer) > 0 {
		// chain the outer payloads and make the last one name SK
		fo, ob, err := EncodeChain(append(append([]Payload(nil), outer...), Payload{T: PSK}), ol)
		if err != nil {
			return nil, err
		}
		firstOuter = fo
		pre = ob[:len(ob)-4] // drop the placeholder SK generic header
	}
	out := EncodeHdr(m.H, firstOuter, 28+len(pre)+skLen)
	out = append(out, pre...)
	out = append(out, first, 0)
	out = append(out, be16(skLen)...)
	out = append(out, iv...)
	out = append(out, ct...)
	icv := HMAC(s.Integ.Digest, ska, out)[:s.Integ.OutLen]
	return append(out, icv...), nil
}

// ProtectRaw authenticates an arbitrary plaintext (a multiple of 16 octets, e.g. a chain that does not parse or an
// impossible pad-length octet): the checksum is genuine, what it covers is malformed. ctLen < 0 encrypts the whole
// plaintext; otherwise the ciphertext is cut to ctLen octets (not a multiple of the block size) before the checksum
// is computed.
func ProtectRaw(s Suite, ske, ska []byte, h Hdr, first uint8, plaintext, iv []byte, ctLen int) []byte {
	ct := CBCEncrypt(ske, iv, plaintext)
	if ctLen >= 0 && ctLen < len(ct) {
		ct = ct[:ctLen]
	}
	skLen := 4 + 16 + len(ct) + s.Integ.OutLen
	out := EncodeHdr(h, PSK, 28+skLen)
	out = append(out, first, 0)
	out = append(out, be16(skLen)...)
	out = append(out, iv...)
	out = append(out, ct...)
	icv := HMAC(s.Integ.Digest, ska, out)[:s.Integ.OutLen]
	return append(out, icv...)
}

// SKParts is what an independent receiver extracts from a protected datagram.
type SKParts struct {
	H        Hdr
	First    uint8 // SK.next payload
	IV       []byte
	PadLen   int
	Pad      []byte
	Inner    []byte
	Payloads []Payload
}

// Unprotect verifies, decrypts and parses a protected datagram (strict).
func Unprotect(s Suite, ske, ska []byte, b []byte, strictZero bool) (*SKParts, error) {
	if len(b) < 28+4 {
		return nil, perr("too short for header + SK")
	}
	if int64(u32(b[24:])) != int64(len(b)) {
		return nil, perr("header length %d ≠ datagram size %d", u32(b[24:]), len(b))
	}
	if b[16] != PSK {
		return nil, perr("first payload is %d, not SK", b[16])
	}
	sk := b[28:]
	if u16(sk[2:]) != len(sk) {
		return nil, perr("SK payload length %d ≠ remaining %d (SK must be the only and last payload)", u16(sk[2:]), len(sk))
	}
	if strictZero && sk[1] != 0 {
		return nil, perr("SK generic header flags %02x", sk[1])
	}
	body := sk[4:]
	if len(body) < 16+16+s.Integ.OutLen || (len(body)-s.Integ.OutLen)%16 != 0 {
		return nil, perr("SK body of %d octets is not IV + blocks + ICV", len(body))
	}
	icvOff := len(b) - s.Integ.OutLen
	want := HMAC(s.Integ.Digest, ska, b[:icvOff])[:s.Integ.OutLen]
	if string(want) != string(b[icvOff:]) {
		return nil, perr("ICV mismatch")
	}
	iv := body[:16]
	ct := body[16 : len(body)-s.Integ.OutLen]
	pt := CBCDecrypt(ske, iv, ct)
	pl := int(pt[len(pt)-1])
	if pl+1 > len(pt) {
		return nil, perr("pad length %d exceeds plaintext %d", pl, len(pt))
	}
	inner := pt[:len(pt)-1-pl]
	r := &SKParts{First: sk[0], IV: iv, PadLen: pl, Pad: pt[len(pt)-1-pl : len(pt)-1], Inner: inner}
	r.H = Hdr{ISPI: u64(b), RSPI: u64(b[8:]), Major: b[17] >> 4, Minor: b[17] & 15, Exch: b[18], Flags: b[19], MsgID: u32(b[20:])}
	var inf Info
	ps, err := ParseChain(sk[0], inner, strictZero, &inf)
	if err != nil {
		return r, fmt.Errorf("inner chain: %w", err)
	}
	r.Payloads = ps
	return r, nil
}

// ---- MODP groups (RFC 2409 section 6.2, RFC 3526 section 3) --------------------

// piFixed returns floor(2^bits * pi) using Machin's formula in fixed point.
func piFixed(bits uint) *big.Int {
	guard := uint(64)
	one := new(big.Int).Lsh(big.NewInt(1), bits+guard)
	arctanInv := func(x int64) *big.Int {
		// arctan(1/x) = sum (-1)^k / ((2k+1) x^(2k+1))
		bx := big.NewInt(x)
		x2 := big.NewInt(x * x)
		term := new(big.Int).Div(one, bx)
		sum := new(big.Int).Set(term)
		for k := int64(1); term.Sign() != 0; k++ {
			term.Div(term, x2)
			t := new(big.Int).Div(term, big.NewInt(2*k+1))
			if k%2 == 1 {
				sum.Sub(sum, t)
			} else {
				sum.Add(sum, t)
			}
		}
		return sum
	}
	pi := new(big.Int).Mul(arctanInv(5), big.NewInt(16))
	pi.Sub(pi, new(big.Int).Mul(arctanInv(239), big.NewInt(4)))
	return pi.Rsh(pi, guard)
}

// ModpPrime: p = 2^n - 2^(n-64) - 1 + 2^64 * ( floor(2^(n-130) pi) + c ).
func ModpPrime(n uint, c int64) *big.Int {
	p := new(big.Int).Lsh(big.NewInt(1), n)
	p.Sub(p, new(big.Int).Lsh(big.NewInt(1), n-64))
	p.Sub(p, big.NewInt(1))
	t := piFixed(n - 130)
	t.Add(t, big.NewInt(c))
	t.Lsh(t, 64)
	return p.Add(p, t)
}

type Group struct {
	ID  uint16
	P   *big.Int
	Len int
}

var groups map[uint16]*Group
var groupsOnce sync.Once

// GroupByID is called from free-running goroutines too (C18 pass 2): the table is built exactly once.
func GroupByID(id uint16) *Group {
	groupsOnce.Do(func() {
		groups = map[uint16]*Group{
			2:  {2, ModpPrime(1024, 129093), 128},
			14: {14, ModpPrime(2048, 124476), 256},
		}
	})
	return groups[id]
}

// ModExp by square-and-multiply over Mul/Mod.
func ModExp(base, exp, mod *big.Int) *big.Int {
	r := big.NewInt(1)
	r.Mod(r, mod)
	b := new(big.Int).Mod(base, mod)
	for i := exp.BitLen() - 1; i >= 0; i-- {
		r.Mul(r, r)
		r.Mod(r, mod)
		if exp.Bit(i) == 1 {
			r.Mul(r, b)
			r.Mod(r, mod)
		}
	}
	return r
}

func (g *Group) fixed(v *big.Int) []byte {
	b := v.Bytes()
	return append(make([]byte, g.Len-len(b)), b...)
}

func (g *Group) Public(x *big.Int) []byte       { return g.fixed(ModExp(big.NewInt(2), x, g.P)) }
func (g *Group) Shared(x, peer *big.Int) []byte { return g.fixed(ModExp(peer, x, g.P)) }
