package main

import (
	"os"
	"runtime/pprof"

	_ "verif/mc/checks"
	"verif/mc/engine"
)

func main() {
	f, _ := os.Create("/tmp/prof/cpu.prof")
	pprof.StartCPUProfile(f)
	c := engine.NewCtx(os.Args[1], "quick", 1, 0, 16)
	engine.Registry[os.Args[1]].Run(c)
	pprof.StopCPUProfile()
}
