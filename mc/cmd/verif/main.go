// Command verif is the single entry point of the verification machinery.
//
//	verif check <Cxx> <quick|thorough>   parent: shards, merges, classifies, writes evidence
//	verif worker <Cxx> <tier> <i> <n> <out>
//	verif replay <file>
package main

import (
	"fmt"
	"os"
	"sort"
	"strconv"

	"verif/mc/checks"
	"verif/mc/engine"
)

func main() {
	if len(os.Args) < 2 {
		usage()
	}
	switch os.Args[1] {
	case "check":
		if len(os.Args) < 4 {
			usage()
		}
		os.Exit(engine.CheckMain(os.Args[2], os.Args[3]))
	case "worker":
		if len(os.Args) < 7 {
			usage()
		}
		i, _ := strconv.Atoi(os.Args[4])
		n, _ := strconv.Atoi(os.Args[5])
		engine.WorkerMain(os.Args[2], os.Args[3], i, n, os.Args[6])
	case "c18steps":
		os.Exit(checks.C18StepDebug())
	case "c18first":
		if len(os.Args) < 3 {
			usage()
		}
		oi, _ := strconv.Atoi(os.Args[2])
		os.Exit(checks.C18FirstUseMain(oi))
	case "racepass":
		if len(os.Args) < 4 {
			usage()
		}
		n, _ := strconv.Atoi(os.Args[2])
		r, _ := strconv.Atoi(os.Args[3])
		os.Exit(checks.RacePassMain(n, r))
	case "replay":
		if len(os.Args) < 3 {
			usage()
		}
		os.Exit(engine.ReplayMain(os.Args[2]))
	case "list":
		var ids []string
		for id := range engine.Registry {
			ids = append(ids, id)
		}
		sort.Strings(ids)
		for _, id := range ids {
			fmt.Println(id)
		}
	default:
		usage()
	}
}

func usage() {
	fmt.Fprintln(os.Stderr, "usage: verif check <id> <quick|thorough> | verif replay <file> | verif list")
	os.Exit(2)
}
