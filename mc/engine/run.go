package engine

import (
	"encoding/json"
	"fmt"
	"os"
	"os/exec"
	"path/filepath"
	"sort"
	"strconv"
	"strings"
	"sync"
	"time"
)

// Check is one registered property check.
type Check struct {
	ID          string
	Level       string // evidence level
	Rule        string // how cases are enumerated, what is distinct / non-trivial
	Assumptions []string
	Serial      bool // run in one worker (checks that own process-global seams and are small)
	MaxShards   int
	Run         func(c *Ctx)
	// Replay re-executes one stored case outside the explorer and returns the
	// violations it produces (empty if it does not reproduce).
	Replay func(c *Ctx, raw json.RawMessage)
}

var Registry = map[string]*Check{}

func Register(c *Check) { Registry[c.ID] = c }

func VerifDir() string {
	if d := os.Getenv("VERIF_DIR"); d != "" {
		return d
	}
	return "/verif"
}

type Finding struct {
	Property  string          `json:"property"`
	Signature string          `json:"signature"`
	Status    string          `json:"status"` // open | fixed
	Commit    string          `json:"commit,omitempty"`
	What      string          `json:"what"`
	Line      string          `json:"line,omitempty"`
	Witness   json.RawMessage `json:"witness,omitempty"`
}

func LoadFindings() []Finding {
	var f struct {
		Findings []Finding `json:"findings"`
	}
	b, err := os.ReadFile(filepath.Join(VerifDir(), "known_findings.json"))
	if err != nil {
		return nil
	}
	if err := json.Unmarshal(b, &f); err != nil {
		fmt.Fprintf(os.Stderr, "known_findings.json unreadable: %v\n", err)
		os.Exit(2)
	}
	return f.Findings
}

func seedFromEnv() int64 {
	if s := os.Getenv("VERIF_SEED"); s != "" {
		if v, err := strconv.ParseInt(s, 10, 64); err == nil {
			return v
		}
	}
	return 1
}

// WorkerMain runs one shard and writes the result file.
func WorkerMain(id, tier string, shard, n int, out string) {
	ck := Registry[id]
	if ck == nil {
		fmt.Fprintf(os.Stderr, "unknown check %s\n", id)
		os.Exit(2)
	}
	c := NewCtx(id, tier, seedFromEnv(), shard, n)
	c.PartialPath = out + ".partial"
	StartWatchdog(c, out)
	ck.Run(c)
	b, err := json.Marshal(c.Result())
	if err != nil {
		fmt.Fprintf(os.Stderr, "marshal result: %v\n", err)
		os.Exit(2)
	}
	if err := os.WriteFile(out, b, 0o644); err != nil {
		fmt.Fprintf(os.Stderr, "write result: %v\n", err)
		os.Exit(2)
	}
}

func nproc() int {
	if s := os.Getenv("VERIF_JOBS"); s != "" {
		if v, err := strconv.Atoi(s); err == nil && v > 0 {
			return v
		}
	}
	return 16
}

// CheckMain is the parent: it shards the check over worker processes, merges,
// classifies violations against the known-findings file, writes replay files
// and the evidence file, and returns the exit code.
func CheckMain(id, tier string) int {
	ck := Registry[id]
	if ck == nil {
		fmt.Fprintf(os.Stderr, "unknown check %s\n", id)
		return 2
	}
	start := time.Now()
	seed := seedFromEnv()
	n := nproc()
	if ck.Serial {
		n = 1
	}
	if ck.MaxShards > 0 && n > ck.MaxShards {
		n = ck.MaxShards
	}
	scratch, err := os.MkdirTemp("", "verif-"+id+"-")
	if err != nil {
		fmt.Fprintln(os.Stderr, err)
		return 2
	}
	defer os.RemoveAll(scratch)
	exe, _ := os.Executable()

	results := make([]*WorkerResult, n)
	crashed := make([]string, n)
	partial := make([][]*Violation, n)
	var wg sync.WaitGroup
	for i := 0; i < n; i++ {
		wg.Add(1)
		go func(i int) {
			defer wg.Done()
			out := filepath.Join(scratch, fmt.Sprintf("w%d.json", i))
			logf := filepath.Join(scratch, fmt.Sprintf("w%d.log", i))
			lf, _ := os.Create(logf)
			cmd := exec.Command(exe, "worker", id, tier, strconv.Itoa(i), strconv.Itoa(n), out)
			cmd.Stdout, cmd.Stderr = lf, lf
			cmd.Env = append(os.Environ(), "GOMAXPROCS=1", "VERIF_WORKER=1")
			if os.Getenv("VERIF_WORKER_GOMAXPROCS") != "" || ck.ID == "C18" {
				cmd.Env = append(os.Environ(), "VERIF_WORKER=1")
			}
			// wall-clock backstop: a worker that makes no progress (e.g. blocked forever) is stopped; this only
			// ever downgrades the run to exhaustive:false, it never raises an alarm
			deadline := workerDeadline(tier)
			err := cmd.Start()
			timedOut := false
			if err == nil {
				done := make(chan error, 1)
				go func() { done <- cmd.Wait() }()
				select {
				case err = <-done:
				case <-time.After(deadline):
					cmd.Process.Kill()
					err = <-done
					timedOut = true
				}
			}
			lf.Close()
			b, rerr := os.ReadFile(out)
			if timedOut || err != nil || rerr != nil {
				// what the worker had found before it was stopped or died
				if pb, perr := os.ReadFile(out + ".partial"); perr == nil {
					var vs []*Violation
					if json.Unmarshal(pb, &vs) == nil {
						partial[i] = vs
					}
				}
			}
			if timedOut {
				crashed[i] = fmt.Sprintf("TIMEOUT worker %d/%d stopped after %s without finishing", i, n, deadline)
				return
			}
			if err != nil || rerr != nil {
				lg, _ := os.ReadFile(logf)
				s := string(lg)
				if len(s) > 4000 {
					s = s[:2000] + "\n...\n" + s[len(s)-2000:]
				}
				crashed[i] = fmt.Sprintf("worker %d/%d: %v\n%s", i, n, err, s)
				return
			}
			r := new(WorkerResult)
			if err := json.Unmarshal(b, r); err != nil {
				crashed[i] = fmt.Sprintf("worker %d/%d: bad result: %v", i, n, err)
				return
			}
			results[i] = r
		}(i)
	}
	wg.Wait()

	// merge
	m := &WorkerResult{Counters: map[string]int64{}, Notes: map[string]int64{}, Exhaustive: true, Extra: map[string]interface{}{}}
	distinct := map[uint64]struct{}{}
	states := map[uint64]struct{}{}
	viol := map[string]*Violation{}
	var crashes []string
	for i, r := range results {
		if r == nil {
			m.Exhaustive = false
			for _, v := range partial[i] {
				if o, ok := viol[v.Signature]; ok {
					o.Count += v.Count
				} else {
					viol[v.Signature] = v
				}
			}
			if strings.HasPrefix(crashed[i], "TIMEOUT") {
				m.CapsHit = append(m.CapsHit, crashed[i])
				fmt.Println("note:", crashed[i], "(reported as exhaustive:false, not as a violation)")
				continue
			}
			crashes = append(crashes, crashed[i])
			continue
		}
		m.Evals += r.Evals
		m.States += r.States
		m.Transitions += r.Transitions
		m.Traces += r.Traces
		for k, v := range r.Counters {
			m.Counters[k] += v
		}
		for k, v := range r.Notes {
			m.Notes[k] += v
		}
		for k, v := range r.Extra {
			if _, ok := m.Extra[k]; !ok {
				m.Extra[k] = v
			}
		}
		for _, k := range r.Distinct {
			distinct[k] = struct{}{}
		}
		for _, k := range r.StateKeys {
			states[k] = struct{}{}
		}
		m.DistinctCap = m.DistinctCap || r.DistinctCap
		if !r.Exhaustive {
			m.Exhaustive = false
		}
		for _, c := range r.CapsHit {
			found := false
			for _, x := range m.CapsHit {
				found = found || x == c
			}
			if !found {
				m.CapsHit = append(m.CapsHit, c)
			}
		}
		if len(m.Samples) < 12 {
			for _, s := range r.Samples {
				if len(m.Samples) < 12 {
					m.Samples = append(m.Samples, s)
				}
			}
		}
		for _, v := range r.Violations {
			if o, ok := viol[v.Signature]; ok {
				o.Count += v.Count
			} else {
				viol[v.Signature] = v
			}
		}
	}
	if int64(len(states)) > m.States {
		m.States = int64(len(states))
	}

	// classify
	findings := LoadFindings()
	open := map[string]Finding{}
	for _, f := range findings {
		if f.Status == "open" && f.Property == id {
			open[f.Signature] = f
		}
	}
	sigs := make([]string, 0, len(viol))
	for s := range viol {
		sigs = append(sigs, s)
	}
	sort.Strings(sigs)
	exit := 0
	knownSeen := []string{}
	newViol := 0
	os.MkdirAll(filepath.Join(VerifDir(), "replays"), 0o755)
	rerunSigs := map[string]map[string]bool{}
	for _, s := range sigs {
		v := viol[s]
		// confirm: replay 5x in this process, must reproduce the same signature every time
		confirmed, detail := confirm(ck, v)
		if !confirmed && v.NShards > 0 {
			// the case does not fail in isolation: re-run the shard that found it, twice, in fresh
			// processes. If the same signature appears both times the violation is deterministic but
			// depends on state that earlier cases left behind in the process (library-global state).
			// (each shard is re-run at most twice per check run, whatever the number of signatures it produced;
			// the re-runs honour the same wall-clock deadline as the first run and are killed beyond it)
			ok := true
			for k := 0; k < 2 && ok; k++ {
				key := fmt.Sprintf("%d-%d", v.Shard, k)
				got, done := rerunSigs[key]
				if !done {
					got = map[string]bool{}
					out := filepath.Join(scratch, fmt.Sprintf("confirm-%d-%d.json", v.Shard, k))
					cmd := exec.Command(exe, "worker", id, tier, strconv.Itoa(v.Shard), strconv.Itoa(v.NShards), out)
					cmd.Env = append(os.Environ(), "GOMAXPROCS=1", "VERIF_WORKER=1")
					if os.Getenv("VERIF_WORKER_GOMAXPROCS") != "" || ck.ID == "C18" {
						cmd.Env = append(os.Environ(), "VERIF_WORKER=1")
					}
					if cmd.Start() == nil {
						fin := make(chan error, 1)
						go func() { fin <- cmd.Wait() }()
						select {
						case <-fin:
						case <-time.After(workerDeadline(tier)):
							cmd.Process.Kill()
							<-fin
						}
					}
					if b, err := os.ReadFile(out); err == nil {
						r := new(WorkerResult)
						if json.Unmarshal(b, r) == nil {
							for _, x := range r.Violations {
								got[x.Signature] = true
							}
						}
					}
					rerunSigs[key] = got
				}
				ok = got[v.Signature]
			}
			if ok {
				confirmed = true
				v.Mode = "shard"
				v.What += " [does not fail in isolation: depends on process-wide state left by earlier cases of the same run; reproduced by re-running shard " + fmt.Sprintf("%d/%d", v.Shard, v.NShards) + " twice]"
			}
		}
		if !confirmed {
			fmt.Printf("UNCONFIRMED property=%s signature=%q: %s (not reported as violation; harness nondeterminism)\n", id, s, detail)
			m.Notes["unconfirmed:"+s]++
			m.Exhaustive = false
			continue
		}
		if f, ok := open[s]; ok {
			fmt.Printf("KNOWN-FINDING: property=%s %s [%s] (%d cases)\n", id, f.What, s, v.Count)
			knownSeen = append(knownSeen, s)
			continue
		}
		newViol++
		name := fmt.Sprintf("%s-%016x.json", id, Hash64([]byte(s)))
		path := filepath.Join(VerifDir(), "replays", name)
		b, _ := json.MarshalIndent(v, "", " ")
		os.WriteFile(path, b, 0o644)
		fmt.Printf("VIOLATION property=%s replay=%s\n", id, path)
		fmt.Printf("  signature: %s\n  what: %s\n  cases: %d\n", s, v.What, v.Count)
		exit = 1
	}
	for _, cr := range crashes {
		newViol++
		name := fmt.Sprintf("%s-crash-%016x.txt", id, Hash64([]byte(cr)))
		path := filepath.Join(VerifDir(), "replays", name)
		os.WriteFile(path, []byte(cr), 0o644)
		fmt.Printf("VIOLATION property=%s replay=%s\n  worker process died (fatal error, unrecovered panic or kill):\n%s\n", id, path, indent(cr))
		exit = 1
	}

	// evidence
	cov := map[string]interface{}{
		"evaluations":                   m.Evals,
		"distinct_nontrivial":           len(distinct),
		"rule":                          ck.Rule,
		"samples":                       m.Samples,
		"exhaustive":                    m.Exhaustive,
		"caps_hit":                      m.CapsHit,
		"counters":                      m.Counters,
		"notes":                         m.Notes,
		"known_findings_seen":           knownSeen,
		"workers":                       n,
		"distinct_count_is_lower_bound": m.DistinctCap,
	}
	for k, v := range m.Extra {
		cov[k] = v
	}
	if v := os.Getenv("VERIF_INSTR_SUMMARY"); v != "" {
		cov["instrumented_build"] = v
	}
	if ck.Level == "model_checking" {
		cov["states"] = m.States
		cov["transitions"] = m.Transitions
		cov["traces_validated_against_impl"] = m.Traces
	} else if m.States > 0 {
		cov["states"] = m.States
		cov["transitions"] = m.Transitions
	}
	if len(m.Samples) == 0 {
		cov["samples"] = []interface{}{"(no sample recorded)"}
	}
	if ck.Assumptions == nil {
		ck.Assumptions = []string{"the enumerated alphabets and bounds stated in the rule (DESIGN.md sections 5, 6, 9)"}
	}
	ev := map[string]interface{}{
		"property_id": id,
		"tier":        tier,
		"seed":        seed,
		"level":       ck.Level,
		"coverage":    cov,
		"assumptions": ck.Assumptions,
		"wall_s":      time.Since(start).Seconds(),
		"violations":  newViol,
	}
	evDir := filepath.Join(VerifDir(), "evidence")
	if d := os.Getenv("VERIF_EVIDENCE_DIR"); d != "" {
		evDir = d // runs against deliberately modified trees keep their evidence apart
	}
	os.MkdirAll(evDir, 0o755)
	b, _ := json.MarshalIndent(ev, "", " ")
	if err := os.WriteFile(filepath.Join(evDir, id+".json"), b, 0o644); err != nil {
		fmt.Fprintln(os.Stderr, "evidence:", err)
		return 2
	}
	fmt.Printf("%s %s: evaluations=%d distinct_nontrivial=%d states=%d transitions=%d exhaustive=%v known=%d violations=%d wall=%.1fs\n",
		id, tier, m.Evals, len(distinct), m.States, m.Transitions, m.Exhaustive, len(knownSeen), newViol, time.Since(start).Seconds())
	keys := make([]string, 0, len(m.Counters))
	for k := range m.Counters {
		keys = append(keys, k)
	}
	sort.Strings(keys)
	for _, k := range keys {
		fmt.Printf("  %-48s %d\n", k, m.Counters[k])
	}
	return exit
}

func workerDeadline(tier string) time.Duration {
	deadline := 20 * time.Minute
	if tier == "thorough" {
		deadline = 3 * time.Hour
	}
	if v := os.Getenv("VERIF_WORKER_DEADLINE_S"); v != "" {
		if n, e := strconv.Atoi(v); e == nil {
			deadline = time.Duration(n) * time.Second
		}
	}
	return deadline
}

func indent(s string) string { return "    " + strings.ReplaceAll(s, "\n", "\n    ") }

func confirm(ck *Check, v *Violation) (bool, string) {
	if ck.Replay == nil || strings.HasPrefix(v.Signature, "noreplay/") {
		return true, ""
	}
	if os.Getenv("VERIF_NO_CONFIRM") != "" {
		return true, ""
	}
	for i := 0; i < 5; i++ {
		c := NewCtx(ck.ID, "replay", 1, 0, 1)
		pi := Catch(func() { ck.Replay(c, v.Case) })
		if pi != nil {
			return false, "replay panicked in harness: " + pi.Value
		}
		if _, ok := c.Violations[v.Signature]; !ok {
			got := []string{}
			for s := range c.Violations {
				got = append(got, s)
			}
			return false, fmt.Sprintf("replay #%d produced %v", i+1, got)
		}
	}
	return true, ""
}

// ReplayMain re-executes a stored violation file; exit 1 iff it reproduces.
func ReplayMain(path string) int {
	b, err := os.ReadFile(path)
	if err != nil {
		fmt.Fprintln(os.Stderr, err)
		return 2
	}
	var v Violation
	if err := json.Unmarshal(b, &v); err != nil {
		fmt.Fprintln(os.Stderr, "not a replay file:", err)
		return 2
	}
	ck := Registry[v.Property]
	if ck == nil || ck.Replay == nil {
		fmt.Fprintln(os.Stderr, "no replay for", v.Property)
		return 2
	}
	c := NewCtx(ck.ID, "replay", 1, 0, 1)
	if v.Mode == "shard" {
		tier := v.Tier
		if tier == "" {
			tier = "quick"
		}
		c = NewCtx(ck.ID, tier, seedFromEnv(), v.Shard, v.NShards)
		ck.Run(c)
		for s := range c.Violations {
			if s != v.Signature {
				delete(c.Violations, s)
			}
		}
	} else {
		ck.Replay(c, v.Case)
	}
	if len(c.Violations) == 0 {
		fmt.Printf("replay of %s: no violation (case passes)\n", path)
		return 0
	}
	for s, x := range c.Violations {
		fmt.Printf("VIOLATION property=%s replay=%s\n  signature: %s\n  what: %s\n", v.Property, path, s, x.What)
	}
	return 1
}
