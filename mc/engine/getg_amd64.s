//go:build amd64

#include "textflag.h"

// func getg() uintptr — the address of the running goroutine's descriptor (its identity while it lives).
TEXT ·getg(SB),NOSPLIT,$0-8
	MOVQ (TLS), R14
	MOVQ R14, ret+0(FP)
	RET
