package engine

import (
	"crypto/rand"
	"crypto/sha256"
	"encoding/binary"
	"errors"
	"io"
)

// E3 — the random-source seam. crypto/rand.Reader is replaced by a scripted
// reader whose answer per Read call is chosen by the explorer.

const (
	AnsA     = iota // full read, non-repeating stream (default)
	AnsZero         // full read, all 0x00
	AnsFF           // full read, all 0xFF
	AnsShort        // one octet, nil error (legal for an io.Reader)
	AnsErr          // error
	nAnswers
	// AnsConst+c: full read, every octet = c (c in 0..255)
	AnsConst = 1000
)

var AnswerNames = []string{"A", "zero", "ff", "short", "error"}

func AnswerName(a int) string {
	if a >= AnsConst {
		return "const" + string("0123456789abcdef"[(a-AnsConst)>>4&15]) + string("0123456789abcdef"[(a-AnsConst)&15])
	}
	return AnswerNames[a]
}

var ErrInjected = errors.New("injected random source failure")

type ReadRec struct {
	Call      int
	Requested int
	Served    int
	Answer    int
	Data      []byte
}

type Seam struct {
	Run      *Run  // nil: always the default answer
	Menu     []int // answers offered at each read (index 0 must be AnsA)
	Horizon  int   // after this many reads only the default answer is served (cut-off, not a violation)
	Cut      bool
	Log      []ReadRec
	Stream   uint64 // stream id: different ids give unrelated pattern-A streams
	StreamOf func() uint64
	Default  int        // the answer served when no explorer is attached (AnsA unless set)
	Before   func()     // called at the start of every Read (scheduling point of the cooperative scheduler)
	ConstOf  func() int // >= 0: this read is served with that constant octet (a source that is stuck for one caller)
	Script   [][]byte   // Script[i] != nil: read number i is served with exactly these octets (a chosen draw); later reads follow the usual rules
	pos      map[uint64]uint64
}

func NewSeam(run *Run, menu []int) *Seam {
	if menu == nil {
		menu = []int{AnsA}
	}
	return &Seam{Run: run, Menu: menu, Horizon: 64, pos: map[uint64]uint64{}}
}

// StreamBytes returns n octets of pattern A of the given stream starting at off:
// SHA-256 in counter mode over a constant; every aligned 32-octet block is distinct.
func StreamBytes(stream, off uint64, n int) []byte {
	out := make([]byte, 0, n+64)
	blk := off / 32
	skip := int(off % 32)
	for len(out) < n+skip {
		var in [24]byte
		copy(in[:8], "verifrnd")
		binary.BigEndian.PutUint64(in[8:], stream)
		binary.BigEndian.PutUint64(in[16:], blk)
		h := sha256.Sum256(in[:])
		out = append(out, h[:]...)
		blk++
	}
	return out[skip : skip+n]
}

func (s *Seam) Read(p []byte) (int, error) {
	if s.Before != nil {
		s.Before()
	}
	call := len(s.Log)
	ans := s.Default
	if call >= s.Horizon {
		s.Cut = true
	} else if s.Run != nil && len(s.Menu) > 1 {
		ans = s.Menu[s.Run.Choose(len(s.Menu), "rand.Read", true)]
	}
	st := s.Stream
	if s.StreamOf != nil {
		st = s.StreamOf()
	}
	if s.ConstOf != nil {
		if v := s.ConstOf(); v >= 0 {
			ans = AnsConst + v&0xff
		} else if v == -2 {
			ans = AnsErr // the source is down for this caller
		}
	}
	rec := ReadRec{Call: call, Requested: len(p), Answer: ans}
	var n int
	var err error
	if call < len(s.Script) && s.Script[call] != nil {
		n = copy(p, s.Script[call])
		rec.Served = n
		rec.Data = append([]byte(nil), p[:n]...)
		s.Log = append(s.Log, rec)
		return n, nil
	}
	switch ans {
	case AnsA:
		copy(p, StreamBytes(st, s.pos[st], len(p)))
		s.pos[st] += uint64(len(p))
		n = len(p)
	case AnsZero:
		for i := range p {
			p[i] = 0
		}
		n = len(p)
	case AnsFF:
		for i := range p {
			p[i] = 0xff
		}
		n = len(p)
	case AnsShort:
		if len(p) > 0 {
			copy(p[:1], StreamBytes(st, s.pos[st], 1))
			s.pos[st]++
			n = 1
		}
	case AnsErr:
		err = ErrInjected
	default:
		if ans >= AnsConst {
			for i := range p {
				p[i] = byte(ans - AnsConst)
			}
			n = len(p)
		}
	}
	rec.Served = n
	rec.Data = append([]byte(nil), p[:n]...)
	s.Log = append(s.Log, rec)
	return n, err
}

// Consumed is the number of octets served so far.
func (s *Seam) Consumed() int {
	t := 0
	for _, r := range s.Log {
		t += r.Served
	}
	return t
}

// Served returns all octets served, concatenated.
func (s *Seam) Served() []byte {
	var b []byte
	for _, r := range s.Log {
		b = append(b, r.Data...)
	}
	return b
}

func (s *Seam) Answers() []string {
	var a []string
	for _, r := range s.Log {
		a = append(a, AnswerName(r.Answer))
	}
	return a
}

func (s *Seam) Failed() bool {
	for _, r := range s.Log {
		if r.Answer == AnsErr {
			return true
		}
	}
	return false
}

// Install makes s the process-wide random source; the returned function restores the previous one.
func Install(s io.Reader) func() {
	old := rand.Reader
	rand.Reader = s
	return func() { rand.Reader = old }
}
