//go:build !verifinstr

package engine

// Plain build: the library is compiled as it is in the tree; the seams of E5 are absent.
func InstrumentedBuild() bool { return false }

func SetAccessHook(f func(id int, write bool)) {}
func SetMapOrderHook(f func(n int) []int)      {}
func SetSchedHooks(point func(label string), block func(label string, waiting func() bool)) {
}
func SetStepHook(f func())  {}
func AccessSites() []string { return nil }

func GlobalPointers() map[string]map[string]interface{} { return nil }

func AtomicImports() int { return 0 }
