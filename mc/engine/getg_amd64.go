//go:build amd64

package engine

// getg is implemented in getg_amd64.s.
func getg() uintptr

// gident identifies the calling goroutine for as long as it lives (a few nanoseconds).
func gident() uintptr { return getg() }
