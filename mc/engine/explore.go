package engine

import "fmt"

// E1 — choice-tree explorer. A run executes a body that calls Choose at every
// decision. The explorer replays a prefix of choices, takes choice 0 afterwards,
// and then re-runs with every alternative at every later point whose deviation
// cost stays within the bound (iterative deviation bounding).

type Point struct {
	Label string
	N     int
	Dev   bool // alternative != 0 costs one deviation
	Chose int
}

type Run struct {
	prefix   []int
	expect   []Point // points of the parent run up to len(prefix), for the divergence guard
	Points   []Point
	Diverged string
}

// Choose returns the decision at this point: the replayed one inside the prefix, 0 beyond.
func (r *Run) Choose(n int, label string, dev bool) int {
	i := len(r.Points)
	ch := 0
	if i < len(r.prefix) {
		ch = r.prefix[i]
		if i < len(r.expect) {
			e := r.expect[i]
			if e.Label != label || e.N != n {
				r.Diverged = fmt.Sprintf("nondeterminism: divergence at point %d: parent saw (%s,%d), replay sees (%s,%d)", i, e.Label, e.N, label, n)
				panic(r.Diverged)
			}
		}
		if ch >= n {
			r.Diverged = fmt.Sprintf("nondeterminism: choice %d out of range %d at point %d (%s)", ch, n, i, label)
			panic(r.Diverged)
		}
	}
	r.Points = append(r.Points, Point{label, n, dev, ch})
	return ch
}

func (r *Run) Choices() []int {
	c := make([]int, len(r.Points))
	for i, p := range r.Points {
		c[i] = p.Chose
	}
	return c
}

func (r *Run) Deviations() int {
	d := 0
	for _, p := range r.Points {
		if p.Dev && p.Chose != 0 {
			d++
		}
	}
	return d
}

type ExploreStats struct {
	Executions int64
	MaxDepth   int
	MaxDev     int
	Capped     bool
}

// Explore enumerates every execution of body with at most bound deviations.
// body is called once per execution with a fresh Run; check is called after it.
// maxExec > 0 caps the number of executions (reported, never silent).
func Explore(bound int, maxExec int64, body func(r *Run), check func(r *Run)) ExploreStats {
	var st ExploreStats
	var rec func(prefix []int, expect []Point)
	rec = func(prefix []int, expect []Point) {
		if maxExec > 0 && st.Executions >= maxExec {
			st.Capped = true
			return
		}
		r := &Run{prefix: prefix, expect: expect}
		body(r)
		st.Executions++
		if len(r.Points) > st.MaxDepth {
			st.MaxDepth = len(r.Points)
		}
		if d := r.Deviations(); d > st.MaxDev {
			st.MaxDev = d
		}
		check(r)
		ch := r.Choices()
		cost := 0
		for i := 0; i < len(r.Points); i++ {
			p := r.Points[i]
			if i >= len(prefix) {
				c := cost
				if p.Dev {
					c++
				}
				if c <= bound {
					for alt := 1; alt < p.N; alt++ {
						np := append(append([]int(nil), ch[:i]...), alt)
						rec(np, r.Points[:i+1])
					}
				}
			}
			if p.Dev && p.Chose != 0 {
				cost++
			}
		}
	}
	rec(nil, nil)
	return st
}

// NewReplayRun returns a Run that replays a recorded choice sequence (for replay files).
func NewReplayRun(prefix []int) *Run { return &Run{prefix: prefix} }
