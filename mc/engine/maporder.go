package engine

// The map-order seam (instrumented build only): every `range` over a map in the library asks
// the explorer for the iteration order. All permutations are offered for maps of up to 5 keys,
// all rotations and reversed rotations beyond.

func factorial(n int) int {
	f := 1
	for i := 2; i <= n; i++ {
		f *= i
	}
	return f
}

func nthPerm(n, idx int) []int {
	items := make([]int, n)
	for i := range items {
		items[i] = i
	}
	out := make([]int, 0, n)
	f := factorial(n)
	for k := n; k > 0; k-- {
		f /= k
		j := idx / f
		idx %= f
		out = append(out, items[j])
		items = append(items[:j], items[j+1:]...)
	}
	return out
}

func orderChoices(n int) int {
	if n <= 5 {
		return factorial(n)
	}
	return 2 * n
}

func orderFor(n, idx int) []int {
	if n <= 5 {
		return nthPerm(n, idx)
	}
	out := make([]int, n)
	rot, rev := idx%n, idx >= n
	for i := range out {
		j := (i + rot) % n
		if rev {
			j = n - 1 - j
		}
		out[i] = j
	}
	return out
}

// ForAllMapOrders runs body once per combination of map iteration orders it meets (exhaustive for
// the offered orders; cap executions reports truncation). It returns the number of executions and
// whether the cap was hit. In a plain build the body runs once.
func ForAllMapOrders(maxExec int64, body func(orderTrace []int)) (int64, bool) {
	if !InstrumentedBuild() {
		body(nil)
		return 1, false
	}
	st := Explore(0, maxExec, func(r *Run) {
		SetMapOrderHook(func(n int) []int {
			return orderFor(n, r.Choose(orderChoices(n), "map-order", false))
		})
		defer SetMapOrderHook(pinnedHook())
		body(nil)
	}, func(r *Run) {})
	return st.Executions, st.Capped
}

// mapOrderPinned: outside ForAllMapOrders every map iteration of the library runs in one fixed order (the sorted
// keys) instead of Go's randomised one. Randomised order is nondeterminism the harness does not own: a clause that
// is sensitive to it would fire in some executions and not in others, and a violation would not replay.
var mapOrderPinned bool

func pinnedHook() func(n int) []int {
	if !mapOrderPinned {
		return nil
	}
	return func(n int) []int {
		p := make([]int, n)
		for i := range p {
			p[i] = i
		}
		return p
	}
}

// PinMapOrder switches the fixed order on (instrumented build; a no-op otherwise).
func PinMapOrder() {
	mapOrderPinned = true
	SetMapOrderHook(pinnedHook())
}
