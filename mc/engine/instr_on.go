//go:build verifinstr

package engine

import "github.com/free5gc/ike/verifrt"

// InstrumentedBuild reports whether the library was built through the E5 overlay.
func InstrumentedBuild() bool { return true }

func SetAccessHook(f func(id int, write bool)) { verifrt.AccessHook = f }
func SetMapOrderHook(f func(n int) []int)       { verifrt.MapOrderHook = f }
func SetSchedHooks(point func(label string), block func(label string, waiting func() bool)) {
	verifrt.PointHook, verifrt.BlockHook = point, block
}
func AccessSites() []string { return verifrt.Sites }
