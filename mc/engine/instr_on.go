//go:build verifinstr

package engine

import "github.com/free5gc/ike/verifrt"

// InstrumentedBuild reports whether the library was built through the E5 overlay.
func InstrumentedBuild() bool { return true }

func SetAccessHook(f func(id int, write bool)) { verifrt.AccessHook = f }
func SetMapOrderHook(f func(n int) []int)      { verifrt.MapOrderHook = f }
func SetSchedHooks(point func(label string), block func(label string, waiting func() bool)) {
	verifrt.PointHook, verifrt.BlockHook = point, block
}
func SetStepHook(f func()) { verifrt.StepHook = f }

func AccessSites() []string { return verifrt.Sites }

// GlobalPointers returns pointers to every package-level variable of the library, per package.
func GlobalPointers() map[string]map[string]interface{} { return verifrt.Globals }

func AtomicImports() int { return verifrt.AtomicImports }
