package engine

import (
	"encoding"
	"fmt"
	"reflect"
	"sort"
	"strings"
	"unsafe"
)

// E4 — canonical state dump and alias map. A reflective deep walk that includes
// unexported fields, follows pointers / interfaces / slices / arrays / structs /
// maps (sorted keys), is cycle-safe (pointers are numbered in visit order, so the
// dump is independent of addresses) and prints hash states through
// encoding.BinaryMarshaler where the type offers it (MD5/SHA-1/SHA-256 digests:
// the marshalled form omits stale buffer octets that cannot influence the future).

type Region struct {
	Base uintptr
	Len  int
	Cap  int
	Path string
}

type dumper struct {
	sb      strings.Builder
	seen    map[uintptr]int
	regions []Region
	wantReg bool
	wantObj bool            // also record every heap object reached through a pointer, a non-byte slice or a map
	objects []Region        // (Base, Len = Cap = size in octets)
	skip    map[string]bool // field paths to skip (e.g. documented aliasing exceptions)
}

var binMarshaler = reflect.TypeOf((*encoding.BinaryMarshaler)(nil)).Elem()

// Dump returns the canonical dump of the object graph reachable from v (pass a pointer).
func Dump(v interface{}) string {
	d := &dumper{seen: map[uintptr]int{}}
	d.walk(reflect.ValueOf(v), "")
	return d.sb.String()
}

func DumpHash(vs ...interface{}) uint64 {
	var parts [][]byte
	for _, v := range vs {
		parts = append(parts, []byte(Dump(v)))
	}
	return Hash64(parts...)
}

// Regions returns every byte-slice region (base, len, cap) reachable from v; skip lists field names to leave out.
func Regions(v interface{}, skip ...string) []Region {
	d := &dumper{seen: map[uintptr]int{}, wantReg: true, skip: map[string]bool{}}
	for _, s := range skip {
		d.skip[s] = true
	}
	d.walk(reflect.ValueOf(v), "")
	return d.regions
}

// Objects returns every heap object reachable from v through pointers, slices (byte slices included) and maps,
// as address ranges. Two values that own their data have disjoint object sets.
func Objects(v interface{}, skip ...string) []Region {
	d := &dumper{seen: map[uintptr]int{}, wantReg: true, wantObj: true, skip: map[string]bool{}}
	for _, s := range skip {
		d.skip[s] = true
	}
	d.walk(reflect.ValueOf(v), "")
	out := d.objects
	for _, r := range d.regions {
		if r.Cap > 0 {
			out = append(out, r)
		}
	}
	return out
}

// Shared reports a pair of objects of a and b whose address ranges intersect.
func Shared(a, b []Region) (Region, Region, bool) {
	for _, x := range a {
		for _, y := range b {
			if x.Cap > 0 && y.Cap > 0 && x.Base < y.Base+uintptr(y.Cap) && y.Base < x.Base+uintptr(x.Cap) {
				return x, y, true
			}
		}
	}
	return Region{}, Region{}, false
}

// Overlaps reports the first region that intersects [base, base+n) (by capacity: spare capacity counts).
func Overlaps(rs []Region, buf []byte) (Region, bool) {
	if cap(buf) == 0 {
		return Region{}, false
	}
	b := buf[:cap(buf)]
	lo := uintptr(unsafe.Pointer(&b[0]))
	hi := lo + uintptr(len(b))
	for _, r := range rs {
		if r.Cap == 0 {
			continue
		}
		if r.Base < hi && lo < r.Base+uintptr(r.Cap) {
			return r, true
		}
	}
	return Region{}, false
}

// unro clears the read-only flags that reflect sets on values reached through unexported
// fields (flagStickyRO = 1<<5, flagEmbedRO = 1<<6 in reflect.Value.flag), so that the walker can
// call Interface() on them. The layout of reflect.Value {typ, ptr, flag} is stable across the
// Go versions in this sandbox; a self-test at start-up (SnapshotSelfTest) guards the assumption.
func unro(v reflect.Value) reflect.Value {
	type rv struct {
		typ, ptr unsafe.Pointer
		flag     uintptr
	}
	p := (*rv)(unsafe.Pointer(&v))
	p.flag &^= (1<<5 | 1<<6)
	return v
}

func access(v reflect.Value) reflect.Value { return unro(v) }

func (d *dumper) walk(v reflect.Value, path string) {
	if !v.IsValid() {
		d.sb.WriteString("<invalid>")
		return
	}
	v = unro(v)
	switch v.Kind() {
	case reflect.Ptr:
		if v.IsNil() {
			d.sb.WriteString("nil")
			return
		}
		p := v.Pointer()
		if id, ok := d.seen[p]; ok {
			fmt.Fprintf(&d.sb, "&p%d", id)
			return
		}
		d.seen[p] = len(d.seen) + 1
		if d.wantObj {
			if sz := int(v.Type().Elem().Size()); sz > 0 {
				d.objects = append(d.objects, Region{Base: p, Len: sz, Cap: sz, Path: path})
			}
		}
		fmt.Fprintf(&d.sb, "&p%d=", d.seen[p])
		av := access(v)
		if av.Type().Implements(binMarshaler) && av.CanInterface() && !d.wantReg {
			if b, err := av.Interface().(encoding.BinaryMarshaler).MarshalBinary(); err == nil {
				fmt.Fprintf(&d.sb, "%s<%x>", v.Type().Elem().String(), b)
				return
			}
		}
		d.walk(v.Elem(), path)
	case reflect.Interface:
		if v.IsNil() {
			d.sb.WriteString("nil")
			return
		}
		e := v.Elem()
		d.sb.WriteString("(" + e.Type().String() + ")")
		d.walk(e, path)
	case reflect.Struct:
		d.sb.WriteString(v.Type().String() + "{")
		for i := 0; i < v.NumField(); i++ {
			name := v.Type().Field(i).Name
			if d.skip != nil && d.skip[name] {
				continue
			}
			d.sb.WriteString(name + ":")
			f := unro(v.Field(i))
			d.walk(f, path+"."+name)
			d.sb.WriteString(" ")
		}
		d.sb.WriteString("}")
	case reflect.Slice:
		if v.Type().Elem().Kind() == reflect.Uint8 {
			if d.wantReg && v.Cap() > 0 {
				d.regions = append(d.regions, Region{Base: v.Pointer(), Len: v.Len(), Cap: v.Cap(), Path: path})
			}
			if v.Len() == 0 {
				d.sb.WriteString("[]") // nil ≡ empty
				return
			}
			b := make([]byte, v.Len())
			reflect.Copy(reflect.ValueOf(b), v)
			fmt.Fprintf(&d.sb, "x%x", b)
			return
		}
		if d.wantObj && v.Cap() > 0 {
			if sz := int(v.Type().Elem().Size()) * v.Cap(); sz > 0 {
				d.objects = append(d.objects, Region{Base: v.Pointer(), Len: sz, Cap: sz, Path: path + "[]"})
			}
		}
		fmt.Fprintf(&d.sb, "[%d:", v.Len())
		for i := 0; i < v.Len(); i++ {
			d.walk(v.Index(i), fmt.Sprintf("%s[%d]", path, i))
			d.sb.WriteString(",")
		}
		d.sb.WriteString("]")
	case reflect.Array:
		if v.Type().Elem().Kind() == reflect.Uint8 {
			b := make([]byte, v.Len())
			for i := range b {
				b[i] = byte(v.Index(i).Uint())
			}
			fmt.Fprintf(&d.sb, "a%x", b)
			return
		}
		d.sb.WriteString("[")
		for i := 0; i < v.Len(); i++ {
			d.walk(v.Index(i), fmt.Sprintf("%s[%d]", path, i))
			d.sb.WriteString(",")
		}
		d.sb.WriteString("]")
	case reflect.Map:
		if v.IsNil() {
			d.sb.WriteString("map{}")
			return
		}
		if d.wantObj {
			d.objects = append(d.objects, Region{Base: v.Pointer(), Len: 8, Cap: 8, Path: path + "{map}"})
		}
		type kv struct {
			k string
			v reflect.Value
		}
		var kvs []kv
		it := v.MapRange()
		for it.Next() {
			kd := &dumper{seen: map[uintptr]int{}}
			kd.walk(it.Key(), "")
			kvs = append(kvs, kv{kd.sb.String(), it.Value()})
		}
		sort.Slice(kvs, func(i, j int) bool { return kvs[i].k < kvs[j].k })
		d.sb.WriteString("map{")
		for _, e := range kvs {
			d.sb.WriteString(e.k + ":")
			d.walk(e.v, path+"["+e.k+"]")
			d.sb.WriteString(",")
		}
		d.sb.WriteString("}")
	case reflect.String:
		fmt.Fprintf(&d.sb, "%q", v.String())
	case reflect.Bool:
		fmt.Fprintf(&d.sb, "%v", v.Bool())
	case reflect.Int, reflect.Int8, reflect.Int16, reflect.Int32, reflect.Int64:
		fmt.Fprintf(&d.sb, "%d", v.Int())
	case reflect.Uint, reflect.Uint8, reflect.Uint16, reflect.Uint32, reflect.Uint64, reflect.Uintptr:
		fmt.Fprintf(&d.sb, "%d", v.Uint())
	case reflect.Float32, reflect.Float64:
		fmt.Fprintf(&d.sb, "%v", v.Float())
	case reflect.Func:
		if v.IsNil() {
			d.sb.WriteString("func(nil)")
		} else {
			d.sb.WriteString("func")
		}
	default:
		d.sb.WriteString("<" + v.Kind().String() + ">")
	}
}

type selfTestInner struct {
	hidden []byte
	h      interface{ Size() int }
}

type selfTestSizer struct{ n int }

func (s *selfTestSizer) Size() int { return s.n }

// SnapshotSelfTest verifies that unexported fields behind interfaces are visible to the walker.
func SnapshotSelfTest() error {
	a := &selfTestInner{hidden: []byte{1, 2, 3}, h: &selfTestSizer{7}}
	b := &selfTestInner{hidden: []byte{1, 2, 3}, h: &selfTestSizer{7}}
	c := &selfTestInner{hidden: []byte{1, 2, 4}, h: &selfTestSizer{7}}
	e := &selfTestInner{hidden: []byte{1, 2, 3}, h: &selfTestSizer{8}}
	if Dump(a) != Dump(b) || Dump(a) == Dump(c) || Dump(a) == Dump(e) {
		return fmt.Errorf("state dump does not see unexported fields: %q %q %q", Dump(a), Dump(c), Dump(e))
	}
	return nil
}

// Scribble overwrites everything reachable from v (pass a pointer): integers are complemented, booleans flipped,
// byte slices filled with 0xEE. It models a holder that edits (or reuses) a value it owns; nothing that someone
// else still relies on may be reachable from that value.
func Scribble(v interface{}) {
	seen := map[uintptr]bool{}
	var walk func(x reflect.Value)
	walk = func(x reflect.Value) {
		if !x.IsValid() {
			return
		}
		x = unro(x)
		switch x.Kind() {
		case reflect.Ptr:
			if x.IsNil() || seen[x.Pointer()] {
				return
			}
			seen[x.Pointer()] = true
			walk(x.Elem())
		case reflect.Interface:
			if !x.IsNil() {
				walk(x.Elem())
			}
		case reflect.Struct:
			for i := 0; i < x.NumField(); i++ {
				f := x.Field(i)
				if x.CanAddr() && !f.CanSet() {
					f = reflect.NewAt(f.Type(), unsafe.Pointer(f.UnsafeAddr())).Elem()
				}
				walk(f)
			}
		case reflect.Slice:
			if x.Type().Elem().Kind() == reflect.Uint8 {
				for i := 0; i < x.Len(); i++ {
					x.Index(i).SetUint(0xEE)
				}
				return
			}
			for i := 0; i < x.Len(); i++ {
				walk(x.Index(i))
			}
		case reflect.Array:
			for i := 0; i < x.Len(); i++ {
				walk(x.Index(i))
			}
		case reflect.Map:
			it := x.MapRange()
			for it.Next() {
				walk(it.Value())
			}
		case reflect.Int, reflect.Int8, reflect.Int16, reflect.Int32, reflect.Int64:
			if x.CanSet() {
				x.SetInt(^x.Int())
			}
		case reflect.Uint, reflect.Uint8, reflect.Uint16, reflect.Uint32, reflect.Uint64:
			if x.CanSet() {
				x.SetUint(^x.Uint() & (1<<(8*uint(x.Type().Size())) - 1))
			}
		case reflect.Bool:
			if x.CanSet() {
				x.SetBool(!x.Bool())
			}
		}
	}
	walk(reflect.ValueOf(v))
}
