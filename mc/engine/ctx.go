// Package engine holds the shared machinery of the checks: the run context
// (sharding, counters, samples, violations), the choice-tree explorer (E1),
// the explicit-state search over real objects (E2), the random-source seam
// (E3), the canonical state dump and alias map (E4), the cooperative scheduler
// (E6) and the violation / known-findings bookkeeping (E7).
package engine

import (
	"crypto/sha256"
	"encoding/binary"
	"encoding/hex"
	"encoding/json"
	"fmt"
	"os"
	"path/filepath"
	"runtime"
	"sort"
	"strings"
)

// Violation is one failing case, with everything needed to replay it.
type Violation struct {
	Property  string          `json:"property"`
	Signature string          `json:"signature"`
	What      string          `json:"what"`
	Case      json.RawMessage `json:"case"`
	Count     int64           `json:"count"` // further cases with the same signature
	// where it was found: lets the parent re-run the whole shard when the single case does not
	// reproduce in isolation (violations that depend on process-wide state left by earlier cases)
	Shard   int    `json:"shard"`
	NShards int    `json:"nshards"`
	Tier    string `json:"tier,omitempty"`
	Mode    string `json:"replay_mode,omitempty"` // "" = single case; "shard" = re-run the shard
}

// Ctx is the per-worker run context of one check.
type Ctx struct {
	Property string
	Tier     string
	Seed     int64
	Shard    int
	NShards  int

	caseIdx int64

	Evals       int64
	States      int64
	Transitions int64
	Traces      int64
	Counters    map[string]int64
	distinct    map[uint64]struct{}
	distinctCap bool
	stateSet    map[uint64]struct{}
	Samples     []interface{}
	sampleSeen  map[string]int
	Violations  map[string]*Violation
	Notes       map[string]int64
	CapsHit     []string
	Exhaustive  bool
	Extra       map[string]interface{}
	PartialPath string // workers: violations are also written here as soon as they are found
}

func NewCtx(prop, tier string, seed int64, shard, nshards int) *Ctx {
	return &Ctx{
		Property: prop, Tier: tier, Seed: seed, Shard: shard, NShards: nshards,
		Counters: map[string]int64{}, distinct: map[uint64]struct{}{}, stateSet: map[uint64]struct{}{},
		sampleSeen: map[string]int{}, Violations: map[string]*Violation{}, Notes: map[string]int64{},
		Exhaustive: true, Extra: map[string]interface{}{},
	}
}

func (c *Ctx) Thorough() bool { return c.Tier == "thorough" }

// Mine advances the shard cursor and reports whether the current unit of work
// belongs to this worker. Every worker enumerates the same sequence, so the
// partition is exact.
func (c *Ctx) Mine() bool {
	i := c.caseIdx
	c.caseIdx++
	return int(i%int64(c.NShards)) == c.Shard
}

func (c *Ctx) Count(name string, n int64) { c.Counters[name] += n }

func Hash64(parts ...[]byte) uint64 {
	h := sha256.New()
	for _, p := range parts {
		var l [4]byte
		binary.BigEndian.PutUint32(l[:], uint32(len(p)))
		h.Write(l[:])
		h.Write(p)
	}
	return binary.BigEndian.Uint64(h.Sum(nil)[:8])
}

const distinctLimit = 3_000_000

// Distinct records one non-trivial case by the hash of its canonical form.
func (c *Ctx) Distinct(key uint64) {
	if len(c.distinct) >= distinctLimit {
		c.distinctCap = true
		return
	}
	c.distinct[key] = struct{}{}
}

func (c *Ctx) DistinctS(s string) { c.Distinct(Hash64([]byte(s))) }

// State records a canonical state of an explicit-state search; returns true if new.
func (c *Ctx) State(key uint64) bool {
	if _, ok := c.stateSet[key]; ok {
		return false
	}
	c.stateSet[key] = struct{}{}
	return true
}

// Sample keeps up to n written-out cases per class.
func (c *Ctx) Sample(class string, v interface{}) {
	if c.sampleSeen[class] >= 2 || len(c.Samples) >= 24 {
		return
	}
	c.sampleSeen[class]++
	c.Samples = append(c.Samples, map[string]interface{}{"class": class, "case": v})
}

func (c *Ctx) Note(name string) { c.Notes[name]++ }

func (c *Ctx) Cap(what string) {
	c.Exhaustive = false
	for _, x := range c.CapsHit {
		if x == what {
			return
		}
	}
	c.CapsHit = append(c.CapsHit, what)
}

// Violate records a violation. cs must be JSON-serialisable and sufficient for replay.
func (c *Ctx) Violate(sig, what string, cs interface{}) {
	if v, ok := c.Violations[sig]; ok {
		v.Count++
		return
	}
	raw, err := json.Marshal(cs)
	if err != nil {
		raw, _ = json.Marshal(fmt.Sprintf("unserialisable case: %v", err))
	}
	if len(what) > 600 {
		what = what[:600] + "…"
	}
	c.Violations[sig] = &Violation{Property: c.Property, Signature: sig, What: what, Case: raw, Count: 1, Shard: c.Shard, NShards: c.NShards, Tier: c.Tier}
	if c.PartialPath != "" && len(c.Violations) <= 64 {
		// a worker that is later stopped at its deadline (or dies) must not take what it found with it
		var vs []*Violation
		for _, v := range c.Violations {
			vs = append(vs, v)
		}
		if b, err := json.Marshal(vs); err == nil {
			os.WriteFile(c.PartialPath+".tmp", b, 0o644)
			os.Rename(c.PartialPath+".tmp", c.PartialPath)
		}
	}
}

// WorkerResult is what a worker hands to the parent.
type WorkerResult struct {
	Evals       int64
	States      int64
	Transitions int64
	Traces      int64
	Counters    map[string]int64
	Distinct    []uint64
	DistinctCap bool
	StateKeys   []uint64
	Samples     []interface{}
	Violations  []*Violation
	Notes       map[string]int64
	CapsHit     []string
	Exhaustive  bool
	Extra       map[string]interface{}
}

func (c *Ctx) Result() *WorkerResult {
	r := &WorkerResult{Evals: c.Evals, States: c.States, Transitions: c.Transitions, Traces: c.Traces,
		Counters: c.Counters, DistinctCap: c.distinctCap, Samples: c.Samples, Notes: c.Notes,
		CapsHit: c.CapsHit, Exhaustive: c.Exhaustive, Extra: c.Extra}
	for k := range c.distinct {
		r.Distinct = append(r.Distinct, k)
	}
	for k := range c.stateSet {
		r.StateKeys = append(r.StateKeys, k)
	}
	sigs := make([]string, 0, len(c.Violations))
	for s := range c.Violations {
		sigs = append(sigs, s)
	}
	sort.Strings(sigs)
	for _, s := range sigs {
		r.Violations = append(r.Violations, c.Violations[s])
	}
	return r
}

// PanicInfo describes a recovered panic by call site, robust to line shifts.
type PanicInfo struct {
	Value string
	Func  string
	File  string
	Line  int
	Text  string
}

func (p *PanicInfo) Sig() string {
	if p == nil {
		return ""
	}
	t := p.Text
	if t == "" {
		t = fmt.Sprintf("%s:%d", filepath.Base(p.File), p.Line)
	}
	return "panic@" + p.Func + ":" + t
}

var srcCache = map[string][]string{}

func srcLine(file string, line int) string {
	ls, ok := srcCache[file]
	if !ok {
		b, err := os.ReadFile(file)
		if err == nil {
			ls = strings.Split(string(b), "\n")
		}
		srcCache[file] = ls
	}
	if line-1 < len(ls) && line >= 1 {
		return strings.Join(strings.Fields(ls[line-1]), " ")
	}
	return ""
}

// Catch runs f and reports a panic raised inside it (nil if none). The call
// site is the innermost frame that belongs to the library under test.
func Catch(f func()) (pi *PanicInfo) {
	defer func() {
		if r := recover(); r != nil {
			pi = &PanicInfo{Value: fmt.Sprint(r)}
			pcs := make([]uintptr, 64)
			n := runtime.Callers(2, pcs)
			fr := runtime.CallersFrames(pcs[:n])
			for {
				f, more := fr.Next()
				if strings.Contains(f.Function, "github.com/free5gc/ike") {
					pi.Func = strings.TrimPrefix(f.Function, "github.com/free5gc/ike")
					pi.File, pi.Line = f.File, f.Line
					pi.Text = srcLine(f.File, f.Line)
					break
				}
				if !more {
					break
				}
			}
			if pi.Func == "" {
				pi.Func = "?"
			}
		}
	}()
	f()
	return nil
}

func Hex(b []byte) string { return hex.EncodeToString(b) }

func UnHex(s string) []byte {
	b, err := hex.DecodeString(s)
	if err != nil {
		panic("bad hex in replay: " + err.Error())
	}
	return b
}
