package engine

import (
	"encoding/json"
	"fmt"
	"os"
	"sync/atomic"
	"syscall"
	"time"
)

// The hang detector: a check publishes the case it is about to run; a watchdog
// goroutine measures the CPU time (not wall-clock time: a suspended or starved
// process accumulates none) the process spends while the same case stays current.
// A single decoder call on at most 64 KiB that burns more than the budget is
// reported as a hang; the budget is 6 orders of magnitude above the normal cost.

type curCase struct {
	seq  uint64
	what func() interface{}
}

var current atomic.Pointer[curCase]
var curSeq uint64

// Begin marks the start of one unit of work; what() must return a serialisable replay case.
func Begin(what func() interface{}) {
	curSeq++
	current.Store(&curCase{curSeq, what})
}

// waitingForChild: the worker itself waits for a sub-process of the harness (C18's free-running pass, first-use
// footprints): idleness is expected.
var waitingForChild atomic.Bool

// WaitingForChild announces / ends such a wait.
func WaitingForChild(on bool) { waitingForChild.Store(on) }

// End marks the end of the unit of work: nothing is current (a worker that then waits for a sub-process, or idles
// for any other reason of its own, is not a blocked library call).
func End() { current.Store(nil) }

// rssMB: resident set size of this process in MB (0 if unknown).
func rssMB() int64 {
	b, err := os.ReadFile("/proc/self/statm")
	if err != nil {
		return 0
	}
	var size, rss int64
	fmt.Sscanf(string(b), "%d %d", &size, &rss)
	return rss * int64(os.Getpagesize()) >> 20
}

func cpuSeconds() float64 {
	var ru syscall.Rusage
	syscall.Getrusage(syscall.RUSAGE_SELF, &ru)
	return float64(ru.Utime.Sec) + float64(ru.Utime.Usec)/1e6 + float64(ru.Stime.Sec) + float64(ru.Stime.Usec)/1e6
}

const HangCPUBudget = 30.0 // seconds of CPU time for one case

// StartWatchdog arranges that a case exceeding the CPU budget is written to out as a
// violation of prop with signature hang/<label> and the worker exits.
func StartWatchdog(c *Ctx, out string) {
	go func() {
		var lastSeq uint64
		var since float64
		idleTicks := 0
		lastCPU := 0.0
		lastEvals, evalsSince := int64(-1), 0.0
		unpubIdle, unpubCPU := 0, 0.0
		for {
			time.Sleep(200 * time.Millisecond)
			cur := current.Load()
			// memory guard: a decoder that loops while it allocates would take the machine down long before any CPU
			// budget is used up (the sandbox has no memory limit)
			if rssMB() > 6000 {
				r := &WorkerResult{Counters: map[string]int64{}, Notes: map[string]int64{}, Extra: map[string]interface{}{}}
				var raw json.RawMessage
				if cur != nil {
					raw, _ = json.Marshal(cur.what())
				}
				r.Violations = []*Violation{{Property: c.Property, Signature: "noreplay/hang", What: fmt.Sprintf("the worker's memory grew beyond 6 GB (normal: tens of MB) after %d evaluations: a call that allocates without bound (no termination within the work bound)", c.Evals), Case: raw, Count: 1}}
				b, _ := json.Marshal(r)
				os.WriteFile(out, b, 0o644)
				os.Exit(0)
			}
			if cur == nil && waitingForChild.Load() {
				lastEvals, evalsSince, unpubIdle = c.Evals, cpuSeconds(), 0
				continue
			}
			if cur == nil {
				// blocked forever in a check that does not publish its cases: no evaluation completed during 450
				// ticks in which the whole process used less than one CPU second (waits for sub-processes of the
				// harness itself are announced through WaitingForChild)
				if c.Evals == lastEvals && c.Evals > 0 {
					unpubIdle++
					if unpubIdle == 1 {
						unpubCPU = cpuSeconds()
					}
					if unpubIdle > 450 {
						if cpuSeconds()-unpubCPU < 1.0 {
							r := &WorkerResult{Counters: map[string]int64{}, Notes: map[string]int64{}, Extra: map[string]interface{}{}}
							r.Violations = []*Violation{{Property: c.Property, Signature: "noreplay/blocked", What: fmt.Sprintf("no evaluation completed and no CPU was consumed for 450 consecutive watchdog ticks (>= 90 s of process run time) after %d evaluations: a call blocks forever", c.Evals), Count: 1}}
							b, _ := json.Marshal(r)
							os.WriteFile(out, b, 0o644)
							os.Exit(0)
						}
						unpubIdle = 0
					}
				} else {
					unpubIdle = 0
				}
				// checks that do not publish their cases: no evaluation completed while the process burnt four CPU
				// budgets (an idle process — waiting for a sub-process — burns none)
				now := cpuSeconds()
				if c.Evals != lastEvals {
					lastEvals, evalsSince = c.Evals, now
				} else if now-evalsSince > 4*HangCPUBudget {
					r := &WorkerResult{Counters: map[string]int64{}, Notes: map[string]int64{}, Extra: map[string]interface{}{}}
					r.Violations = []*Violation{{Property: c.Property, Signature: "noreplay/hang", What: fmt.Sprintf("no evaluation completed during %.0f s of CPU time (normal cost: microseconds to milliseconds) after %d evaluations: no termination within the work bound", 4*HangCPUBudget, c.Evals), Count: 1}}
					b, _ := json.Marshal(r)
					os.WriteFile(out, b, 0o644)
					os.Exit(0)
				}
				continue
			}
			now := cpuSeconds()
			if cur.seq != lastSeq {
				lastSeq, since = cur.seq, now
				idleTicks, lastCPU = 0, now
				continue
			}
			// blocked forever: the same case stays current for 450 watchdog ticks (ticks, not wall time: a
			// suspended process makes no ticks) during which the whole process consumed less than one CPU second
			// (the runtime's own background work — timers, sysmon, this goroutine — is a fraction of a percent of
			// a core; a window of 450 ticks in which the whole process used less than one CPU second is idle)
			idleTicks++
			if idleTicks > 450 && now-lastCPU >= 1.0 {
				idleTicks, lastCPU = 0, now
			}
			if idleTicks > 450 {
				cs := cur.what()
				raw, _ := json.Marshal(cs)
				r := &WorkerResult{Counters: map[string]int64{}, Notes: map[string]int64{}, Extra: map[string]interface{}{}}
				r.Violations = []*Violation{{Property: c.Property, Signature: "noreplay/blocked", What: "one case made no progress and consumed no CPU for 450 consecutive watchdog ticks (>= 90 s of process run time): the call blocks forever", Case: raw, Count: 1}}
				b, _ := json.Marshal(r)
				os.WriteFile(out, b, 0o644)
				os.Exit(0)
			}
			if now-since > HangCPUBudget {
				cs := cur.what()
				raw, _ := json.Marshal(cs)
				r := &WorkerResult{Counters: map[string]int64{}, Notes: map[string]int64{}, Extra: map[string]interface{}{}}
				r.Violations = []*Violation{{Property: c.Property, Signature: "noreplay/hang", What: fmt.Sprintf("one case consumed more than %.0f s of CPU time (normal cost: microseconds): no termination within the work bound", HangCPUBudget), Case: raw, Count: 1}}
				b, _ := json.Marshal(r)
				os.WriteFile(out, b, 0o644)
				os.Exit(0)
			}
		}
	}()
}
