package engine

import (
	"fmt"
	"runtime"
)

// goid returns the id of the calling goroutine (parsed from the first line of its stack trace; about a
// microsecond; the portable fallback of gident).
func goid() int64 {
	var buf [64]byte
	n := runtime.Stack(buf[:], false)
	// "goroutine 123 [running]:"
	var id int64
	for _, ch := range buf[10:n] {
		if ch < '0' || ch > '9' {
			break
		}
		id = id*10 + int64(ch-'0')
	}
	return id
}

// ForeignSeen is set (for the rest of the process) once code under test was observed running on a goroutine
// that is not a logical thread of the scheduler (a worker pool inside the library, for instance).
var ForeignSeen bool

// E6 — cooperative scheduler. Logical threads are goroutines that run strictly one
// at a time; at every scheduling point the running thread asks the explorer (E1)
// who continues. Enabled threads are presented in canonical order: the running
// thread first (if it can continue), then ascending ids; switching away from a
// thread that could continue is a preemption and costs one deviation.
//
// Scheduling points: thread start/end, explicit Point calls of the harness between
// library calls ("the caller holds a result while others run"), every read of the
// random source (the seam calls Point), and — in the instrumented build — every
// access to package-level state and every shim lock operation (verifrt hooks).

type Thread struct {
	ID      int
	s       *Sched
	resume  chan struct{}
	done    bool
	blocked func() bool // non-nil while the thread waits for a shim lock
	Result  string
	panicv  *PanicInfo
	gid     uintptr
}

type Sched struct {
	run      *Run
	threads  []*Thread
	cur      int
	mainCh   chan struct{}
	Points   int
	MaxPts   int
	Switches int
	Livelock bool
	Deadlock bool
	Trace    []int       // thread id chosen at each point
	Race     interface{} // optional race detector attached by the harness
	Foreign  int         // hook calls that came from goroutines the scheduler does not own (ignored)
}

// Owned reports whether the calling goroutine is the running logical thread. Hooks that can be reached from
// library-spawned goroutines must return at once when it is false: such goroutines run freely.
func (s *Sched) Owned() bool {
	if s.cur < 0 {
		return false
	}
	if gident() == s.threads[s.cur].gid {
		return true
	}
	s.Foreign++
	ForeignSeen = true
	return false
}

func NewSched(run *Run) *Sched {
	return &Sched{run: run, cur: -1, mainCh: make(chan struct{}), MaxPts: 4000}
}

// Current returns the id of the running logical thread (-1 outside).
func (s *Sched) Current() int { return s.cur }

// Go registers a logical thread; it starts running when the scheduler picks it.
func (s *Sched) Go(body func(t *Thread)) *Thread {
	t := &Thread{ID: len(s.threads), s: s, resume: make(chan struct{})}
	s.threads = append(s.threads, t)
	go func() {
		t.gid = gident()
		<-t.resume
		pi := Catch(func() { body(t) })
		t.panicv = pi
		if pi != nil && t.Result == "" {
			t.Result = "panic " + pi.Sig()
		}
		t.done = true
		s.schedule(t, "thread-end")
	}()
	return t
}

// enabled lists runnable threads in canonical order.
func (s *Sched) enabled(running *Thread) []*Thread {
	var out []*Thread
	ok := func(t *Thread) bool { return !t.done && (t.blocked == nil || !t.blocked()) }
	if running != nil && ok(running) {
		out = append(out, running)
	}
	for _, t := range s.threads {
		if t != running && ok(t) {
			out = append(out, t)
		}
	}
	return out
}

// schedule is called by the running thread (or by Run for the first pick) and hands the token over.
func (s *Sched) schedule(running *Thread, label string) {
	s.Points++
	if s.Points > s.MaxPts {
		s.Livelock = true
	}
	en := s.enabled(running)
	if len(en) == 0 {
		// everything finished, or deadlock (threads blocked forever)
		for _, t := range s.threads {
			if !t.done {
				s.Deadlock = true
			}
		}
		s.cur = -1
		s.mainCh <- struct{}{}
		if running != nil && !running.done {
			// a blocked thread can never continue: park forever (the goroutine is abandoned)
			select {}
		}
		return
	}
	choice := 0
	if len(en) > 1 && !s.Livelock {
		canContinue := running != nil && en[0] == running
		choice = s.run.Choose(len(en), label, canContinue)
	}
	next := en[choice]
	s.Trace = append(s.Trace, next.ID)
	if next == running {
		return
	}
	s.Switches++
	s.cur = next.ID
	next.resume <- struct{}{}
	if running != nil && !running.done {
		<-running.resume
	}
}

// Point is a scheduling point of the running thread.
func (s *Sched) Point(label string) {
	if s.cur < 0 || !s.Owned() {
		return
	}
	s.schedule(s.threads[s.cur], label)
}

// Block parks the running thread until cond() is false (used by the shim locks); other threads run meanwhile.
func (s *Sched) Block(label string, waiting func() bool) {
	if s.cur < 0 {
		return
	}
	if !s.Owned() {
		// a library-spawned goroutine waits for a shim lock: it is not parked by the scheduler, it yields the
		// processor until the holder lets go
		for waiting() {
			runtime.Gosched()
		}
		return
	}
	t := s.threads[s.cur]
	for waiting() {
		t.blocked = waiting
		s.schedule(t, label)
		t.blocked = nil
	}
}

// Run starts the threads and returns when all have finished (or none can continue).
func (s *Sched) Run() {
	if len(s.threads) == 0 {
		return
	}
	go s.schedule(nil, "start")
	<-s.mainCh
	runtime.Gosched()
}

func (s *Sched) Describe() string {
	return fmt.Sprintf("points=%d switches=%d trace=%v", s.Points, s.Switches, s.Trace)
}
