//go:build !amd64

package engine

// gident identifies the calling goroutine (portable fallback: parsed from the stack trace header, microseconds).
func gident() uintptr { return uintptr(goid()) }
