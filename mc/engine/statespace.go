package engine

// E2 — explicit-state search over real objects. Live Go objects cannot be cloned,
// so a state is represented by the shortest op history that reaches it; a successor
// is computed by building a fresh object, replaying the history and applying one more
// op. State key = hash of the canonical dump (E4). The search stops at closure
// (empty frontier) or at a depth / state cap, which is reported.

type SSOp struct {
	Name  string
	Apply func(obj interface{}) string // returns a canonical outcome
}

type SSResult struct {
	States      int
	Transitions int64
	Depth       int
	Closed      bool
}

// Search runs the BFS. fresh builds the initial object; key canonicalises a state;
// onTransition is called for every (history, op) with the object after the op and the outcome.
func Search(fresh func() interface{}, ops []SSOp, key func(obj interface{}) uint64,
	onTransition func(hist []int, op int, obj interface{}, outcome string) bool,
	maxDepth, maxStates int,
) SSResult {
	var res SSResult
	seen := map[uint64]bool{}
	init := fresh()
	seen[key(init)] = true
	frontier := [][]int{{}}
	res.States = 1
	for depth := 0; len(frontier) > 0; depth++ {
		if maxDepth > 0 && depth >= maxDepth {
			res.Depth = depth
			return res
		}
		var next [][]int
		for _, hist := range frontier {
			for oi := range ops {
				obj := fresh()
				for _, h := range hist {
					ops[h].Apply(obj)
				}
				out := ops[oi].Apply(obj)
				res.Transitions++
				if !onTransition(hist, oi, obj, out) {
					res.Depth = depth + 1
					return res
				}
				k := key(obj)
				if !seen[k] {
					seen[k] = true
					res.States++
					if maxStates > 0 && res.States >= maxStates {
						res.Depth = depth + 1
						return res
					}
					next = append(next, append(append([]int(nil), hist...), oi))
				}
			}
		}
		frontier = next
		res.Depth = depth + 1
	}
	res.Closed = true
	return res
}
