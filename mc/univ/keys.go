package univ

import (
	"fmt"

	"github.com/free5gc/ike/security"
	"github.com/free5gc/ike/security/dh"
	"github.com/free5gc/ike/security/encr"
	"github.com/free5gc/ike/security/integ"
	"github.com/free5gc/ike/security/prf"

	"verif/mc/ref"
)

// KeySet is the raw key material of an IKE SA (reference-side view).
type KeySet struct {
	Suite    ref.Suite   `json:"-"`
	SuiteIdx int         `json:"suite"`
	PRFIdx   int         `json:"prf"`
	Pattern  int         `json:"pattern"`
	K        ref.IKEKeys `json:"-"`
}

func EncrName(keyLen int) string { return fmt.Sprintf("ENCR_AES_CBC_%d", keyLen*8) }
func IntegName(a ref.IntegAlg) string {
	switch a.ID {
	case 1:
		return "AUTH_HMAC_MD5_96"
	case 2:
		return "AUTH_HMAC_SHA1_96"
	case 12:
		return "AUTH_HMAC_SHA2_256_128"
	}
	return "?"
}
func PRFName(p ref.PRFAlg) string {
	switch p.ID {
	case 1:
		return "PRF_HMAC_MD5"
	case 2:
		return "PRF_HMAC_SHA1"
	case 5:
		return "PRF_HMAC_SHA2_256"
	}
	return "?"
}

// keyBytes returns n octets of key pattern p (0: all zero, 1: all 0xFF, 2: counting,
// >=3: pseudo-random pattern seeded by p and salt).
func keyBytes(n, p, salt int) []byte {
	switch p {
	case 0:
		return Fill(n, 0)
	case 1:
		return Fill(n, 0xff)
	case 2:
		b := make([]byte, n)
		for i := range b {
			b[i] = byte(i + salt)
		}
		return b
	}
	return Pat(n, p*1000+salt)
}

// MakeKeySet builds the raw keys for suite si, PRF pi and key pattern pat.
func MakeKeySet(si, pi, pat int) KeySet {
	s := ref.Suites()[si]
	p := ref.PRFs[pi]
	ks := KeySet{Suite: s, SuiteIdx: si, PRFIdx: pi, Pattern: pat}
	o := 31 * (si + 9*pi) // patterns >= 2 are unrelated between suites (all-zero / all-0xFF cannot be)
	ks.K = ref.IKEKeys{
		SKd: keyBytes(p.KeyLen, pat, 1+o), SKai: keyBytes(s.Integ.KeyLen, pat, 2+o), SKar: keyBytes(s.Integ.KeyLen, pat, 3+o),
		SKei: keyBytes(s.EncrKeyLen, pat, 4+o), SKer: keyBytes(s.EncrKeyLen, pat, 5+o), SKpi: keyBytes(p.KeyLen, pat, 6+o), SKpr: keyBytes(p.KeyLen, pat, 7+o),
	}
	return ks
}

// NewSA constructs a library IKESAKey directly from raw keys through the public
// registries and constructors (the second way the API allows besides GenerateKeyForIKESA).
func NewSA(ks KeySet) (*security.IKESAKey, error) {
	sa := &security.IKESAKey{
		DhInfo:    dh.StrToType("DH_2048_BIT_MODP"),
		EncrInfo:  encr.StrToType(EncrName(ks.Suite.EncrKeyLen)),
		IntegInfo: integ.StrToType(IntegName(ks.Suite.Integ)),
		PrfInfo:   prf.StrToType(PRFName(ref.PRFs[ks.PRFIdx])),
	}
	if sa.EncrInfo == nil || sa.IntegInfo == nil || sa.PrfInfo == nil || sa.DhInfo == nil {
		return nil, fmt.Errorf("registry lacks an advertised algorithm for %v", ks.Suite)
	}
	k := ks.K
	cp := func(b []byte) []byte { return append([]byte(nil), b...) }
	sa.SK_d, sa.SK_ai, sa.SK_ar, sa.SK_ei, sa.SK_er, sa.SK_pi, sa.SK_pr = cp(k.SKd), cp(k.SKai), cp(k.SKar), cp(k.SKei), cp(k.SKer), cp(k.SKpi), cp(k.SKpr)
	sa.Prf_d = sa.PrfInfo.Init(sa.SK_d)
	sa.Integ_i = sa.IntegInfo.Init(sa.SK_ai)
	sa.Integ_r = sa.IntegInfo.Init(sa.SK_ar)
	var err error
	if sa.Encr_i, err = sa.EncrInfo.NewCrypto(sa.SK_ei); err != nil {
		return nil, err
	}
	if sa.Encr_r, err = sa.EncrInfo.NewCrypto(sa.SK_er); err != nil {
		return nil, err
	}
	sa.Prf_i = sa.PrfInfo.Init(sa.SK_pi)
	sa.Prf_r = sa.PrfInfo.Init(sa.SK_pr)
	if sa.Integ_i == nil || sa.Integ_r == nil {
		return nil, fmt.Errorf("integrity object refused its key")
	}
	return sa, nil
}

// NewSAScratch builds the same SA the way a caller with one scratch buffer does: every key is copied into the
// scratch buffer, the security object is made from that window, the buffer is refilled for the next key and wiped at
// the end. The SK_* fields hold their own copies. Every object must be keyed with the key it was given.
func NewSAScratch(ks KeySet) (*security.IKESAKey, error) {
	sa, err := NewSA(ks)
	if err != nil {
		return nil, err
	}
	scratch := make([]byte, 64)
	use := func(k []byte) []byte { copy(scratch, k); return scratch[:len(k)] }
	sa.Prf_d = sa.PrfInfo.Init(use(sa.SK_d))
	sa.Integ_i = sa.IntegInfo.Init(use(sa.SK_ai))
	sa.Integ_r = sa.IntegInfo.Init(use(sa.SK_ar))
	if sa.Encr_i, err = sa.EncrInfo.NewCrypto(use(sa.SK_ei)); err != nil {
		return nil, err
	}
	if sa.Encr_r, err = sa.EncrInfo.NewCrypto(use(sa.SK_er)); err != nil {
		return nil, err
	}
	sa.Prf_i = sa.PrfInfo.Init(use(sa.SK_pi))
	sa.Prf_r = sa.PrfInfo.Init(use(sa.SK_pr))
	for i := range scratch {
		scratch[i] = 0
	}
	return sa, nil
}

// DirKeys returns the sender's direction-specific keys (encryption, integrity).
func (ks KeySet) DirKeys(senderIsInitiator bool) (ske, ska []byte) {
	if senderIsInitiator {
		return ks.K.SKei, ks.K.SKai
	}
	return ks.K.SKer, ks.K.SKar
}
