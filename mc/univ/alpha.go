package univ

import (
	"fmt"

	"verif/mc/ref"
)

// Pat returns n deterministic, non-repeating-looking octets (no crypto involved).
func Pat(n int, seed int) []byte {
	b := make([]byte, n)
	x := uint32(seed)*2654435761 + 12345
	for i := range b {
		x = x*1664525 + 1013904223
		b[i] = byte(x >> 24)
	}
	return b
}

func Fill(n int, v byte) []byte {
	b := make([]byte, n)
	for i := range b {
		b[i] = v
	}
	return b
}

// Inst is one named payload instance of the alphabet.
type Inst struct {
	Name string
	P    ref.Payload
}

func tv(tt uint8, id uint16, at, av uint16) ref.Transform {
	return ref.Transform{Type: tt, ID: id, HasAttr: true, TV: true, AType: at, AValue: av}
}
func tlv(tt uint8, id uint16, at uint16, v []byte) ref.Transform {
	return ref.Transform{Type: tt, ID: id, HasAttr: true, AType: at, AVar: v}
}
func tr(tt uint8, id uint16) ref.Transform { return ref.Transform{Type: tt, ID: id} }

var BaseHdr = ref.Hdr{ISPI: 0x0102030405060708, RSPI: 0x1112131415161718, Major: 2, Minor: 0, Exch: 35, Flags: 0x08, MsgID: 1}

func ikeProposal(n uint8) ref.Proposal {
	return ref.Proposal{Num: n, Proto: 1, Tr: []ref.Transform{tv(1, 12, 14, 256), tr(2, 5), tr(3, 12), tr(4, 14)}}
}

func sel4(p uint8, sp, ep uint16, a, b byte) ref.Selector {
	return ref.Selector{Type: 7, Proto: p, SPort: sp, EPort: ep, SAddr: []byte{10, 0, a, 1}, EAddr: []byte{10, 0, b, 255}}
}
func sel6(p uint8, sp, ep uint16, a byte) ref.Selector {
	return ref.Selector{Type: 8, Proto: p, SPort: sp, EPort: ep, SAddr: append([]byte{0x20, 0x01, a}, Pat(13, 3)...), EAddr: append([]byte{0x20, 0x01, a + 1}, Pat(13, 4)...)}
}

func aka(code, id, sub uint8, at ...ref.AKAAttr) ref.Payload {
	return ref.Payload{T: ref.PEAP, EAP: &ref.EAP{Code: code, ID: id, Method: 50, Sub: sub, AKA: at}}
}
func at(t uint8, v []byte) ref.AKAAttr { return ref.AKAAttr{T: t, V: v} }

// Alphabet returns the payload alphabet Σq (every structural shape of every payload
// kind; sizes and field values are swept separately by Sweeps).
func Alphabet() []Inst {
	var a []Inst
	add := func(n string, p ref.Payload) { a = append(a, Inst{n, p}) }

	add("SA/ike4", ref.Payload{T: ref.PSA, SA: []ref.Proposal{ikeProposal(1)}})
	add("SA/ike+esp8", ref.Payload{T: ref.PSA, SA: []ref.Proposal{ikeProposal(1),
		{Num: 2, Proto: 3, SPI: Pat(8, 1), Tr: []ref.Transform{tv(1, 12, 14, 128), tr(3, 2), tr(5, 1)}}}})
	add("SA/spi255", ref.Payload{T: ref.PSA, SA: []ref.Proposal{{Num: 1, Proto: 3, SPI: Pat(255, 2), Tr: []ref.Transform{tr(5, 0)}}}})
	add("SA/tvmax", ref.Payload{T: ref.PSA, SA: []ref.Proposal{{Num: 1, Proto: 1, Tr: []ref.Transform{tv(1, 12, 0x7fff, 0xffff)}}}})
	add("SA/tlv14", ref.Payload{T: ref.PSA, SA: []ref.Proposal{{Num: 1, Proto: 1, Tr: []ref.Transform{tlv(1, 12, 14, []byte{0, 1, 0})}}}})
	add("SA/tlv300+tv300", ref.Payload{T: ref.PSA, SA: []ref.Proposal{{Num: 1, Proto: 1, Tr: []ref.Transform{tlv(1, 20, 300, Pat(5, 9)), tv(1, 12, 300, 7), tr(2, 2)}}}})
	add("SA/esnonly", ref.Payload{T: ref.PSA, SA: []ref.Proposal{{Num: 1, Proto: 3, SPI: Pat(4, 5), Tr: []ref.Transform{tr(5, 0), tr(5, 1)}}}})
	add("SA/3x2pertype", ref.Payload{T: ref.PSA, SA: []ref.Proposal{
		{Num: 1, Proto: 1, Tr: []ref.Transform{tv(1, 12, 14, 128), tv(1, 12, 14, 192), tr(2, 1), tr(2, 2), tr(3, 1), tr(3, 2), tr(4, 2), tr(4, 14), tr(5, 0), tr(5, 1)}},
		{Num: 2, Proto: 2, SPI: Pat(4, 6), Tr: []ref.Transform{tr(3, 12), tr(5, 0)}},
		{Num: 3, Proto: 3, SPI: Pat(4, 7), Tr: []ref.Transform{tv(1, 12, 14, 256), tr(5, 1)}}}})

	add("KE/min", ref.Payload{T: ref.PKE, Group: 2, Data: []byte{0x5a}})
	add("KE/g14", ref.Payload{T: ref.PKE, Group: 14, Data: Pat(256, 11)})
	add("IDi/ipv4", ref.Payload{T: ref.PIDi, B: 1, Data: []byte{192, 168, 0, 1}})
	add("IDi/min", ref.Payload{T: ref.PIDi, B: 11, Data: []byte{0}})
	add("IDr/fqdn", ref.Payload{T: ref.PIDr, B: 2, Data: []byte("n3iwf.5gc.org")})
	add("CERT/min", ref.Payload{T: ref.PCERT, B: 4, Data: []byte{0x30}})
	add("CERT/300", ref.Payload{T: ref.PCERT, B: 4, Data: Pat(300, 12)})
	add("CERTREQ/sha1", ref.Payload{T: ref.PCERTREQ, B: 4, Data: Pat(20, 13)})
	add("CERTREQ/min", ref.Payload{T: ref.PCERTREQ, B: 255, Data: []byte{1}})
	add("AUTH/psk", ref.Payload{T: ref.PAUTH, B: 2, Data: Pat(20, 14)})
	add("AUTH/min", ref.Payload{T: ref.PAUTH, B: 1, Data: []byte{0xff}})
	add("Nonce/32", ref.Payload{T: ref.PNonce, Data: Pat(32, 15)})
	add("Nonce/empty", ref.Payload{T: ref.PNonce})
	add("N/plain", ref.Payload{T: ref.PNotify, B: 0, NType: 16388})
	add("N/spi4+data", ref.Payload{T: ref.PNotify, B: 3, NType: 11, SPI: Pat(4, 16), Data: Pat(40, 17)})
	add("N/spi255+1", ref.Payload{T: ref.PNotify, B: 3, NType: 65535, SPI: Pat(255, 18), Data: []byte{7}})
	add("D/ike", ref.Payload{T: ref.PDelete, B: 1})
	add("D/esp1", ref.Payload{T: ref.PDelete, B: 3, SSize: 4, NSPI: 1, SPIs: []uint32{0xdeadbeef}})
	add("D/esp3", ref.Payload{T: ref.PDelete, B: 3, SSize: 4, NSPI: 3, SPIs: []uint32{1, 0x80000000, 0xffffffff}})
	add("V/16", ref.Payload{T: ref.PVendor, Data: Pat(16, 19)})
	add("V/empty", ref.Payload{T: ref.PVendor})
	add("TSi/v4", ref.Payload{T: ref.PTSi, TS: []ref.Selector{sel4(0, 0, 65535, 1, 1)}})
	add("TSi/v4v6", ref.Payload{T: ref.PTSi, TS: []ref.Selector{sel4(6, 80, 443, 2, 3), sel6(17, 1, 2, 0xd0)}})
	add("TSr/v6v4v4", ref.Payload{T: ref.PTSr, TS: []ref.Selector{sel6(0, 0, 65535, 0xa0), sel4(1, 0, 0, 4, 5), sel4(255, 65535, 0, 6, 7)}})
	add("TSr/v6", ref.Payload{T: ref.PTSr, TS: []ref.Selector{sel6(58, 1024, 2048, 0xb0)}})
	add("CP/req1", ref.Payload{T: ref.PCP, B: 1, CP: []ref.CPAttr{{Type: 1}}})
	add("CP/reply3", ref.Payload{T: ref.PCP, B: 2, CP: []ref.CPAttr{{Type: 1, Val: []byte{10, 0, 0, 9}}, {Type: 0x7fff, Val: Pat(16, 20)}, {Type: 8}}})
	add("EAP/success", ref.Payload{T: ref.PEAP, EAP: &ref.EAP{Code: 3, ID: 9}})
	add("EAP/failure", ref.Payload{T: ref.PEAP, EAP: &ref.EAP{Code: 4, ID: 255}})
	add("EAP/req-id1", ref.Payload{T: ref.PEAP, EAP: &ref.EAP{Code: 1, ID: 1, Method: 1, Data: []byte{0x41}}})
	add("EAP/resp-id10", ref.Payload{T: ref.PEAP, EAP: &ref.EAP{Code: 2, ID: 1, Method: 1, Data: []byte("0imsi@nai.")}})
	add("EAP/req-notif", ref.Payload{T: ref.PEAP, EAP: &ref.EAP{Code: 1, ID: 2, Method: 2, Data: []byte("hello")}})
	add("EAP/resp-nak", ref.Payload{T: ref.PEAP, EAP: &ref.EAP{Code: 2, ID: 3, Method: 3, Data: []byte{50}}})
	add("EAP/exp-zero", ref.Payload{T: ref.PEAP, EAP: &ref.EAP{Code: 1, ID: 4, Method: 254}})
	add("EAP/5g-start", ref.Payload{T: ref.PEAP, EAP: &ref.EAP{Code: 1, ID: 5, Method: 254, VID: 10415, VType: 3, Data: []byte{1, 0}}})
	add("EAP/exp-max", ref.Payload{T: ref.PEAP, EAP: &ref.EAP{Code: 2, ID: 6, Method: 254, VID: 0xffffff, VType: 0xffffffff, Data: Pat(40, 21)}})
	add("EAP/aka-challenge", aka(1, 7, 1, at(ref.AtRAND, Pat(16, 22)), at(ref.AtAUTN, Pat(16, 23)), at(ref.AtKDF, []byte{0, 1}),
		at(ref.AtKDFInput, []byte("5G:mnc01")), at(ref.AtMAC, Pat(16, 24))))
	add("EAP/aka-response", aka(2, 7, 1, at(ref.AtRES, Pat(8, 25)), at(ref.AtMAC, Pat(16, 26))))
	add("EAP/aka-res5", aka(2, 8, 1, at(ref.AtRES, Pat(5, 27))))
	add("EAP/aka-kdfin5", aka(1, 8, 5, at(ref.AtKDFInput, []byte("WLAN1"))))
	add("EAP/aka-check20", aka(1, 9, 1, at(ref.AtCheckcode, Pat(20, 28)), at(ref.AtMAC, Pat(16, 29))))
	add("EAP/aka-check0", aka(2, 9, 1, at(ref.AtCheckcode, nil)))
	add("EAP/aka-empty", aka(2, 10, 2))
	return a
}

// Messages enumerates all payload sequences of length 0..depth over the alphabet,
// under the base header. f receives a short name and the descriptor.
func Messages(depth int, f func(name string, m ref.Msg)) {
	al := Alphabet()
	var rec func(prefix []int)
	rec = func(prefix []int) {
		m := ref.Msg{H: BaseHdr}
		name := ""
		for _, i := range prefix {
			m.P = append(m.P, al[i].P)
			name += al[i].Name + " "
		}
		if name == "" {
			name = "(empty)"
		}
		f(name, m)
		if len(prefix) == depth {
			return
		}
		for i := range al {
			rec(append(append([]int(nil), prefix...), i))
		}
	}
	rec(nil)
}

func one(p ref.Payload) ref.Msg { return ref.Msg{H: BaseHdr, P: []ref.Payload{p}} }

// Sweeps enumerates the one- and two-dimensional field sweeps of DESIGN 5.1.
// fits reports whether the message is inside the domain (fits every length field);
// messages with fits == false must make the library return an error.
func Sweeps(thorough bool, f func(name string, m ref.Msg, fits bool)) {
	// header fields
	for v := 0; v < 256; v++ {
		h := BaseHdr
		h.Exch = uint8(v)
		f(fmt.Sprintf("hdr.exch=%d", v), ref.Msg{H: h}, true)
		h = BaseHdr
		h.Flags = uint8(v)
		f(fmt.Sprintf("hdr.flags=%d", v), ref.Msg{H: h, P: []ref.Payload{{T: ref.PNonce, Data: []byte{1}}}}, true)
		h = BaseHdr
		h.Major, h.Minor = uint8(v>>4), uint8(v&15)
		f(fmt.Sprintf("hdr.version=%d.%d", h.Major, h.Minor), ref.Msg{H: h}, true)
	}
	for _, v := range []uint64{0, 1, 1 << 31, 1 << 32, 1 << 63, ^uint64(0), 0xaaaaaaaaaaaaaaaa, 0x0123456789abcdef} {
		h := BaseHdr
		h.ISPI, h.RSPI, h.MsgID = v, ^v, uint32(v>>7)
		f(fmt.Sprintf("hdr.spi=%x", v), ref.Msg{H: h}, true)
	}
	// 8-bit fields
	for v := 0; v < 256; v++ {
		b := uint8(v)
		f(fmt.Sprintf("IDi.type=%d", v), one(ref.Payload{T: ref.PIDi, B: b, Data: []byte{1}}), true)
		f(fmt.Sprintf("IDr.type=%d", v), one(ref.Payload{T: ref.PIDr, B: b, Data: []byte{1, 2}}), true)
		f(fmt.Sprintf("AUTH.method=%d", v), one(ref.Payload{T: ref.PAUTH, B: b, Data: []byte{1}}), true)
		f(fmt.Sprintf("CERT.enc=%d", v), one(ref.Payload{T: ref.PCERT, B: b, Data: []byte{1}}), true)
		f(fmt.Sprintf("CERTREQ.enc=%d", v), one(ref.Payload{T: ref.PCERTREQ, B: b, Data: []byte{1}}), true)
		f(fmt.Sprintf("CP.type=%d", v), one(ref.Payload{T: ref.PCP, B: b, CP: []ref.CPAttr{{Type: 1}}}), true)
		f(fmt.Sprintf("N.proto=%d", v), one(ref.Payload{T: ref.PNotify, B: b, NType: 1}), true)
		f(fmt.Sprintf("D.proto=%d", v), one(ref.Payload{T: ref.PDelete, B: b, SSize: 4, NSPI: 1, SPIs: []uint32{uint32(v)}}), true)
		f(fmt.Sprintf("SA.propnum=%d", v), one(ref.Payload{T: ref.PSA, SA: []ref.Proposal{{Num: b, Proto: uint8(255 - v), Tr: []ref.Transform{tr(2, 5)}}}}), true)
		s := sel4(b, 1, 2, 3, 4)
		f(fmt.Sprintf("TS.ipproto=%d", v), one(ref.Payload{T: ref.PTSi, TS: []ref.Selector{s}}), true)
		if v == 3 || v == 4 { // Success/Failure carry no data
			f(fmt.Sprintf("EAP.code=%d", v), one(ref.Payload{T: ref.PEAP, EAP: &ref.EAP{Code: b, ID: uint8(v * 7)}}), true)
		} else {
			f(fmt.Sprintf("EAP.code=%d", v), one(ref.Payload{T: ref.PEAP, EAP: &ref.EAP{Code: b, ID: uint8(v * 7), Method: 1, Data: []byte{1}}}), true)
		}
		f(fmt.Sprintf("EAP.id=%d", v), one(ref.Payload{T: ref.PEAP, EAP: &ref.EAP{Code: 2, ID: b, Method: 254, VID: uint32(v) << 16, VType: uint32(v) << 24}}), true)
		f(fmt.Sprintf("AKA.sub=%d", v), one(aka(1, 1, b, at(ref.AtKDF, []byte{b, 1}))), true)
		// SPI lengths 0..255
		f(fmt.Sprintf("SA.spilen=%d", v), one(ref.Payload{T: ref.PSA, SA: []ref.Proposal{{Num: 1, Proto: 3, SPI: Pat(v, v), Tr: []ref.Transform{tr(5, 0), tv(1, 12, 14, 128)}}}}), true)
		f(fmt.Sprintf("N.spilen=%d", v), one(ref.Payload{T: ref.PNotify, B: 3, NType: 9, SPI: Pat(v, v), Data: Pat(v%3, 1)}), true)
		// selector count 1..255
		if v >= 1 {
			var ts []ref.Selector
			for i := 0; i < v; i++ {
				if i%3 == 2 {
					ts = append(ts, sel6(uint8(i), uint16(i), uint16(v), uint8(i)))
				} else {
					ts = append(ts, sel4(uint8(i), uint16(i), uint16(v), uint8(i), uint8(v)))
				}
			}
			f(fmt.Sprintf("TSr.count=%d", v), one(ref.Payload{T: ref.PTSr, TS: ts}), true)
		}
		// transform count 1..255 in one proposal
		if v >= 1 && (thorough || v < 20 || v > 250) {
			var trs []ref.Transform
			for i := 0; i < v; i++ {
				trs = append(trs, tr(uint8(1+i%5), uint16(i)))
			}
			f(fmt.Sprintf("SA.trcount=%d", v), one(ref.Payload{T: ref.PSA, SA: []ref.Proposal{{Num: 1, Proto: 1, Tr: trs}}}), true)
		}
	}
	// selector value × content shape (leading / trailing zero octets, all-zero, 0xFF): a codec that
	// interprets the data of one particular type code (string trimming, integer normalisation) shows here
	shapes := [][]byte{{0}, {0, 0}, {0x41, 0}, {0, 0x41}, {0x41, 0x42, 0, 0}, {0xff}, {0xff, 0}, {0x20, 0x41, 0x20}, []byte("a.b\x00"), {0x0a}}
	for v := 0; v < 256; v++ {
		b := uint8(v)
		for si, d := range shapes {
			f(fmt.Sprintf("IDi.type×shape=%d/%d", v, si), one(ref.Payload{T: ref.PIDi, B: b, Data: d}), true)
			f(fmt.Sprintf("IDr.type×shape=%d/%d", v, si), one(ref.Payload{T: ref.PIDr, B: b, Data: d}), true)
			f(fmt.Sprintf("AUTH.method×shape=%d/%d", v, si), one(ref.Payload{T: ref.PAUTH, B: b, Data: d}), true)
			f(fmt.Sprintf("CERT.enc×shape=%d/%d", v, si), one(ref.Payload{T: ref.PCERT, B: b, Data: d}), true)
			f(fmt.Sprintf("CERTREQ.enc×shape=%d/%d", v, si), one(ref.Payload{T: ref.PCERTREQ, B: b, Data: d}), true)
			f(fmt.Sprintf("N.proto×shape=%d/%d", v, si), one(ref.Payload{T: ref.PNotify, B: b, NType: uint16(v) << 8, SPI: d, Data: d}), true)
			f(fmt.Sprintf("CP.type×shape=%d/%d", v, si), one(ref.Payload{T: ref.PCP, B: b, CP: []ref.CPAttr{{Type: uint16(v), Val: d}}}), true)
			f(fmt.Sprintf("EAP.code×shape=%d/%d", v, si), one(ref.Payload{T: ref.PEAP, EAP: &ref.EAP{Code: uint8(1 + v%2), ID: b, Method: uint8(1 + v%3), Data: d}}), true)
			f(fmt.Sprintf("EAP.exp×shape=%d/%d", v, si), one(ref.Payload{T: ref.PEAP, EAP: &ref.EAP{Code: 2, ID: b, Method: 254, VID: uint32(v), VType: uint32(v), Data: d}}), true)
		}
	}
	for si, d := range shapes {
		f(fmt.Sprintf("Nonce.shape=%d", si), one(ref.Payload{T: ref.PNonce, Data: d}), true)
		f(fmt.Sprintf("V.shape=%d", si), one(ref.Payload{T: ref.PVendor, Data: d}), true)
		f(fmt.Sprintf("KE.shape=%d", si), one(ref.Payload{T: ref.PKE, Group: 2, Data: d}), true)
		f(fmt.Sprintf("SA.spi.shape=%d", si), one(ref.Payload{T: ref.PSA, SA: []ref.Proposal{{Num: 1, Proto: 3, SPI: d, Tr: []ref.Transform{tlv(1, 12, 14, d), tr(5, 0)}}}}), true)
		f(fmt.Sprintf("AKA.shape=%d", si), one(aka(1, 1, 1, at(ref.AtKDFInput, d), at(ref.AtCheckcode, append(append([]byte(nil), d...), make([]byte, 20-len(d))...)))), true)
	}
	// two-dimensional: SPI size × transform count
	for _, sl := range []int{0, 1, 4, 8, 247, 248, 249, 255} {
		for _, tc := range []int{1, 2, 5} {
			var trs []ref.Transform
			for i := 0; i < tc; i++ {
				trs = append(trs, tv(uint8(1+i%5), uint16(i), uint16(14+i), uint16(sl)))
			}
			f(fmt.Sprintf("SA.spilen=%d×tr=%d", sl, tc), one(ref.Payload{T: ref.PSA, SA: []ref.Proposal{{Num: 1, Proto: 3, SPI: Pat(sl, 5), Tr: trs}, {Num: 2, Proto: 3, SPI: Pat(sl, 6), Tr: trs}}}), true)
		}
	}
	// 16-bit fields
	step := 1
	for v := 0; v < 65536; v += step {
		w := uint16(v)
		f(fmt.Sprintf("SA.trid=%d", v), one(ref.Payload{T: ref.PSA, SA: []ref.Proposal{{Num: 1, Proto: 1, Tr: []ref.Transform{tr(uint8(1+v%5), w)}}}}), true)
		f(fmt.Sprintf("SA.tvvalue=%d", v), one(ref.Payload{T: ref.PSA, SA: []ref.Proposal{{Num: 1, Proto: 1, Tr: []ref.Transform{tv(1, 12, 14, w)}}}}), true)
		f(fmt.Sprintf("KE.group=%d", v), one(ref.Payload{T: ref.PKE, Group: w, Data: []byte{1}}), true)
		f(fmt.Sprintf("N.type=%d", v), one(ref.Payload{T: ref.PNotify, B: 1, NType: w, Data: []byte{byte(v)}}), true)
		s := sel4(6, w, ^w, 1, 2)
		f(fmt.Sprintf("TS.ports=%d", v), one(ref.Payload{T: ref.PTSr, TS: []ref.Selector{s}}), true)
		if v < 0x8000 {
			f(fmt.Sprintf("SA.tvtype=%d", v), one(ref.Payload{T: ref.PSA, SA: []ref.Proposal{{Num: 1, Proto: 1, Tr: []ref.Transform{tv(1, 12, w, 128)}}}}), true)
			f(fmt.Sprintf("SA.tlvtype=%d", v), one(ref.Payload{T: ref.PSA, SA: []ref.Proposal{{Num: 1, Proto: 1, Tr: []ref.Transform{tlv(3, 2, w, []byte{byte(v), 2})}}}}), true)
			f(fmt.Sprintf("CP.attrtype=%d", v), one(ref.Payload{T: ref.PCP, B: 1, CP: []ref.CPAttr{{Type: w, Val: []byte{byte(v >> 8)}}}}), true)
		}
	}
	// Delete SPI counts up to the payload-size limit (4 + 4 + 4n <= 65535 -> n <= 16381)
	for _, n := range []int{0, 1, 2, 255, 256, 257, 16380, 16381, 16382, 16383, 20000} {
		sp := make([]uint32, n)
		for i := range sp {
			sp[i] = uint32(i) * 2654435761
		}
		ss := uint8(4)
		if n == 0 {
			ss = 0
		}
		f(fmt.Sprintf("D.count=%d", n), one(ref.Payload{T: ref.PDelete, B: 3, SSize: ss, NSPI: uint16(n), SPIs: sp}), n <= 16381)
	}
	// data lengths 0..64 and around the 16-bit payload limit
	lens := []int{}
	for i := 0; i <= 64; i++ {
		lens = append(lens, i)
	}
	lens = append(lens, 255, 256, 1000, 65526, 65527, 65528, 65529, 65530, 65531, 65532, 65535, 65536, 70000)
	for _, n := range lens {
		fit := func(hdr int) bool { return 4+hdr+n <= 65535 }
		d := Pat(n, n)
		f(fmt.Sprintf("Nonce.len=%d", n), one(ref.Payload{T: ref.PNonce, Data: d}), fit(0))
		f(fmt.Sprintf("V.len=%d", n), one(ref.Payload{T: ref.PVendor, Data: d}), fit(0))
		f(fmt.Sprintf("N.datalen=%d", n), one(ref.Payload{T: ref.PNotify, B: 1, NType: 2, SPI: Pat(4, 1), Data: d}), fit(8))
		if n >= 1 {
			f(fmt.Sprintf("KE.len=%d", n), one(ref.Payload{T: ref.PKE, Group: 14, Data: d}), fit(4))
			f(fmt.Sprintf("IDi.len=%d", n), one(ref.Payload{T: ref.PIDi, B: 1, Data: d}), fit(4))
			f(fmt.Sprintf("IDr.len=%d", n), one(ref.Payload{T: ref.PIDr, B: 1, Data: d}), fit(4))
			f(fmt.Sprintf("AUTH.len=%d", n), one(ref.Payload{T: ref.PAUTH, B: 1, Data: d}), fit(4))
			f(fmt.Sprintf("CERT.len=%d", n), one(ref.Payload{T: ref.PCERT, B: 4, Data: d}), fit(1))
			f(fmt.Sprintf("CERTREQ.len=%d", n), one(ref.Payload{T: ref.PCERTREQ, B: 4, Data: d}), fit(1))
			f(fmt.Sprintf("EAP.idlen=%d", n), one(ref.Payload{T: ref.PEAP, EAP: &ref.EAP{Code: 2, ID: 1, Method: 1, Data: d}}), fit(5))
			f(fmt.Sprintf("EAP.notiflen=%d", n), one(ref.Payload{T: ref.PEAP, EAP: &ref.EAP{Code: 1, ID: 1, Method: 2, Data: d}}), fit(5))
			f(fmt.Sprintf("EAP.naklen=%d", n), one(ref.Payload{T: ref.PEAP, EAP: &ref.EAP{Code: 2, ID: 1, Method: 3, Data: d}}), fit(5))
			f(fmt.Sprintf("SA.tlvlen=%d", n), one(ref.Payload{T: ref.PSA, SA: []ref.Proposal{{Num: 1, Proto: 1, Tr: []ref.Transform{tlv(1, 12, 99, d)}}}}), 4+8+8+4+n <= 65535)
		}
		f(fmt.Sprintf("EAP.explen=%d", n), one(ref.Payload{T: ref.PEAP, EAP: &ref.EAP{Code: 1, ID: 1, Method: 254, VID: 10415, VType: 3, Data: d}}), fit(12))
		f(fmt.Sprintf("CP.vallen=%d", n), one(ref.Payload{T: ref.PCP, B: 2, CP: []ref.CPAttr{{Type: 3, Val: d}, {Type: 4}}}), fit(4+4+4))
	}
	// EAP-AKA' value sizes
	for n := 4; n <= 16; n++ {
		f(fmt.Sprintf("AKA.res=%d", n), one(aka(2, 1, 1, at(ref.AtRES, Pat(n, n)), at(ref.AtMAC, Pat(16, 1)))), true)
	}
	for n := 0; n <= 300; n++ {
		f(fmt.Sprintf("AKA.kdfinput=%d", n), one(aka(1, 1, 1, at(ref.AtKDF, []byte{0, 1}), at(ref.AtKDFInput, Pat(n, n)))), true)
	}
	for _, n := range []int{0, 20, 32} {
		f(fmt.Sprintf("AKA.checkcode=%d", n), one(aka(1, 1, 1, at(ref.AtCheckcode, Pat(n, n)))), true)
	}
	// all subsets of the settable attributes
	vals := map[uint8][]byte{ref.AtRAND: Pat(16, 1), ref.AtAUTN: Pat(16, 2), ref.AtRES: Pat(7, 3), ref.AtMAC: Pat(16, 4),
		ref.AtKDF: {0, 1}, ref.AtKDFInput: Pat(9, 5), ref.AtCheckcode: Pat(20, 6)}
	for mask := 0; mask < 128; mask++ {
		var ats []ref.AKAAttr
		for i, t := range ref.AKASettable {
			if mask&(1<<uint(i)) != 0 {
				ats = append(ats, at(t, vals[t]))
			}
		}
		f(fmt.Sprintf("AKA.subset=%07b", mask), one(aka(1, 3, 1, ats...)), true)
	}
	// transform identifiers of every type, 0 (NONE / reserved) included, alone and next to other transforms of the
	// same type; proposals numbered in every order (RFC 7296 3.3.1 wants 1, 2, 3 … from a sender, a receiver sees
	// whatever was sent)
	for t := uint8(1); t <= 5; t++ {
		for id := uint16(0); id <= 40; id++ {
			f(fmt.Sprintf("SA.type×id=%d/%d", t, id), one(ref.Payload{T: ref.PSA, SA: []ref.Proposal{{Num: 1, Proto: 3, SPI: Pat(4, 1), Tr: []ref.Transform{tr(t, id)}}}}), true)
			f(fmt.Sprintf("SA.type×id+other=%d/%d", t, id), one(ref.Payload{T: ref.PSA, SA: []ref.Proposal{{Num: 1, Proto: 3, SPI: Pat(4, 1), Tr: []ref.Transform{tv(1, 12, 14, 128), tr(t, 14), tr(t, id), tr(5, 0)}}}}), true)
			f(fmt.Sprintf("SA.type×id first=%d/%d", t, id), one(ref.Payload{T: ref.PSA, SA: []ref.Proposal{{Num: 1, Proto: 1, Tr: []ref.Transform{tr(t, id), tr(t, 2), tr(2, 5)}}}}), true)
		}
	}
	for _, nums := range [][]uint8{{2, 1}, {3, 2, 1}, {2, 3, 1}, {1, 3, 2}, {1, 2, 1, 2}, {1, 1}, {0, 0}, {255, 1}, {1, 2, 3}, {5, 5, 4}} {
		var props []ref.Proposal
		for i, n := range nums {
			props = append(props, ref.Proposal{Num: n, Proto: uint8(1 + i%3), SPI: Pat(4*(i%3), i), Tr: []ref.Transform{tv(1, 12, 14, uint16(128+64*(i%3))), tr(uint8(2+i%4), uint16(i+1))}})
		}
		f(fmt.Sprintf("SA.propnums=%v", nums), one(ref.Payload{T: ref.PSA, SA: props}), true)
		f(fmt.Sprintf("SA.propnums+=%v", nums), ref.Msg{H: BaseHdr, P: []ref.Payload{{T: ref.PNonce, Data: Pat(8, 1)}, {T: ref.PSA, SA: props}, {T: ref.PKE, Group: 2, Data: Pat(8, 2)}}}, true)
	}
	// header: zero and non-zero SPIs in every combination with the R / I / V flags and the four exchanges
	for _, isp := range []uint64{0, 1, 0x0102030405060708} {
		for _, rsp := range []uint64{0, 0x1112131415161718} {
			for _, fl := range []uint8{0x00, 0x08, 0x10, 0x18, 0x20, 0x28, 0x30, 0x38} {
				for _, ex := range []uint8{34, 35, 36, 37} {
					h := BaseHdr
					h.ISPI, h.RSPI, h.Flags, h.Exch, h.MsgID = isp, rsp, fl, ex, uint32(ex)-34
					f(fmt.Sprintf("hdr.spi×flags×exch=%x/%x/%02x/%d", isp, rsp, fl, ex), ref.Msg{H: h, P: []ref.Payload{{T: ref.PNonce, Data: Pat(4, 3)}}}, true)
				}
			}
		}
	}
	// traffic selector address shapes: every pair (start, end) of the special address forms of each family
	// (unspecified, all-ones, loopback, IPv4-mapped and IPv4-compatible IPv6, leading / trailing zeros)
	v6 := [][]byte{make([]byte, 16), bytesOf(0xff, 16), append(make([]byte, 15), 1),
		append(append(make([]byte, 10), 0xff, 0xff), 192, 168, 1, 7), append(append(make([]byte, 10), 0xff, 0xff), 0, 0, 0, 0),
		append(make([]byte, 12), 10, 0, 0, 1), append([]byte{0xfe, 0x80}, make([]byte, 14)...), append([]byte{0x20, 0x01, 0x0d, 0xb8}, Pat(12, 9)...),
		append(append([]byte{0, 0x64, 0xff, 0x9b}, make([]byte, 8)...), 8, 8, 8, 8)}
	v4 := [][]byte{{0, 0, 0, 0}, {255, 255, 255, 255}, {127, 0, 0, 1}, {10, 0, 0, 0}, {0, 0, 0, 1}, {224, 0, 0, 251}, {192, 168, 1, 7}}
	for i, a := range v6 {
		for j, b := range v6 {
			sl := ref.Selector{Type: 8, Proto: uint8(i), SPort: uint16(j), EPort: 65535, SAddr: a, EAddr: b}
			f(fmt.Sprintf("TSi.v6shape=%d/%d", i, j), one(ref.Payload{T: ref.PTSi, TS: []ref.Selector{sl}}), true)
			f(fmt.Sprintf("TSr.v6shape=%d/%d", i, j), one(ref.Payload{T: ref.PTSr, TS: []ref.Selector{sel4(0, 0, 65535, 1, 2), sl}}), true)
		}
	}
	for i, a := range v4 {
		for j, b := range v4 {
			sl := ref.Selector{Type: 7, Proto: uint8(i), SPort: uint16(j), EPort: 65535, SAddr: a, EAddr: b}
			f(fmt.Sprintf("TSi.v4shape=%d/%d", i, j), one(ref.Payload{T: ref.PTSi, TS: []ref.Selector{sl, sel6(0, 0, 65535, 3)}}), true)
			f(fmt.Sprintf("TSr.v4shape=%d/%d", i, j), one(ref.Payload{T: ref.PTSr, TS: []ref.Selector{sl}}), true)
		}
	}
	// protocol constants in combination: exchange type × request/response/initiator flags × every notify type the
	// RFCs name × position in the chain (a codec that treats one combination specially — reordering, dropping,
	// rewriting — shows only here)
	var ntypes []uint16
	for _, t := range []uint16{1, 4, 5, 7, 9, 11, 14, 17, 24, 34, 35, 36, 37, 38, 39, 40, 41, 42, 43, 44, 45, 46, 47} {
		ntypes = append(ntypes, t)
	}
	for t := uint16(16384); t <= 16450; t++ {
		ntypes = append(ntypes, t)
	}
	for _, ex := range []uint8{34, 35, 36, 37, 43} {
		for _, fl := range []uint8{0x00, 0x08, 0x20, 0x28} {
			h := BaseHdr
			h.Exch, h.Flags = ex, fl
			for _, nt := range ntypes {
				n := ref.Payload{T: ref.PNotify, B: 0, NType: nt, Data: Pat(int(nt%23), int(nt))}
				f(fmt.Sprintf("exch×flags×notify@2=%d/%02x/%d", ex, fl, nt), ref.Msg{H: h, P: []ref.Payload{{T: ref.PNonce, Data: Pat(16, 1)}, n}}, true)
				f(fmt.Sprintf("exch×flags×notify@3=%d/%02x/%d", ex, fl, nt), ref.Msg{H: h, P: []ref.Payload{{T: ref.PNotify, B: 1, NType: 16388, Data: Pat(20, 2)}, {T: ref.PKE, Group: 14, Data: Pat(8, 3)}, n}}, true)
			}
		}
	}
	// payload order: every permutation of the payload set typical of each exchange, as request and as response
	sets := []struct {
		ex uint8
		ps []ref.Payload
	}{
		{34, []ref.Payload{{T: ref.PSA, SA: []ref.Proposal{ikeProposal(1)}}, {T: ref.PKE, Group: 14, Data: Pat(16, 1)}, {T: ref.PNonce, Data: Pat(16, 2)},
			{T: ref.PNotify, NType: 16390, Data: Pat(12, 3)}, {T: ref.PNotify, NType: 16388, Data: Pat(20, 4)}, {T: ref.PVendor, Data: Pat(5, 5)}}},
		{35, []ref.Payload{{T: ref.PIDi, B: 2, Data: []byte("a.b")}, {T: ref.PCERT, B: 4, Data: Pat(9, 1)}, {T: ref.PAUTH, B: 2, Data: Pat(20, 2)},
			{T: ref.PSA, SA: []ref.Proposal{{Num: 1, Proto: 3, SPI: Pat(4, 3), Tr: []ref.Transform{tv(1, 12, 14, 128), tr(3, 2), tr(5, 0)}}}},
			{T: ref.PTSi, TS: []ref.Selector{sel4(0, 0, 65535, 1, 2)}}, {T: ref.PTSr, TS: []ref.Selector{sel4(0, 0, 65535, 3, 4)}}}},
		{36, []ref.Payload{{T: ref.PNotify, B: 3, NType: 16393, SPI: Pat(4, 1)}, {T: ref.PSA, SA: []ref.Proposal{{Num: 1, Proto: 3, SPI: Pat(4, 3), Tr: []ref.Transform{tv(1, 12, 14, 128), tr(5, 0)}}}},
			{T: ref.PNonce, Data: Pat(16, 2)}, {T: ref.PKE, Group: 2, Data: Pat(8, 1)}, {T: ref.PDelete, B: 3, SSize: 4, NSPI: 1, SPIs: []uint32{7}}, {T: ref.PCP, B: 1, CP: []ref.CPAttr{{Type: 1}}}}},
		{37, []ref.Payload{{T: ref.PDelete, B: 1}, {T: ref.PDelete, B: 3, SSize: 4, NSPI: 2, SPIs: []uint32{7, 9}}, {T: ref.PNotify, NType: 16384}, {T: ref.PCP, B: 2, CP: []ref.CPAttr{{Type: 1, Val: []byte{10, 0, 0, 1}}}},
			{T: ref.PVendor, Data: Pat(3, 1)}, {T: ref.PEAP, EAP: &ref.EAP{Code: 3, ID: 9}}}},
	}
	for si, st := range sets {
		if !thorough && si >= 2 {
			// quick: the two initial exchanges in full; the other two sets every 4th permutation
		}
		idx := 0
		permute(len(st.ps), func(pm []int) {
			idx++
			if !thorough && si >= 2 && idx%4 != 0 {
				return
			}
			ps := make([]ref.Payload, len(pm))
			for i, j := range pm {
				ps[i] = st.ps[j]
			}
			for _, fl := range []uint8{0x08, 0x20} {
				h := BaseHdr
				h.Exch, h.Flags = st.ex, fl
				f(fmt.Sprintf("order.exch=%d/%02x/%v", st.ex, fl, pm), ref.Msg{H: h, P: ps}, true)
			}
		})
	}
	// chain sizes: one long body at each position of a four-payload chain, every length, so that the encoded chain
	// crosses every size an encoder may pre-allocate (512, 1024, 1280, 1500, 2048, 4096 … and the growth steps of
	// append) at every stage of the layout: inside the long body, inside a later generic header, inside a later body
	maxBody := 2700
	if thorough {
		maxBody = 9000
	}
	for n := 0; n <= maxBody; n++ {
		d := Pat(n, n)
		var long ref.Payload
		switch n % 3 {
		case 0:
			long = ref.Payload{T: ref.PCERT, B: 4, Data: append([]byte{0x30}, d...)}
		case 1:
			long = ref.Payload{T: ref.PVendor, Data: d}
		default:
			long = ref.Payload{T: ref.PNotify, B: 0, NType: 16400, Data: d}
		}
		small := []ref.Payload{{T: ref.PIDr, B: 2, Data: []byte("gw.example")}, {T: ref.PAUTH, B: 2, Data: Pat(32, n+1)}, {T: ref.PNotify, B: 0, NType: 16384, Data: Pat(n%7, 3)}}
		for pos := 0; pos < 3; pos++ {
			ps := append(append(append([]ref.Payload(nil), small[:pos]...), long), small[pos:]...)
			f(fmt.Sprintf("chain.size=%d@%d", n, pos), ref.Msg{H: BaseHdr, P: ps}, true)
		}
	}
	// proposals with and without SPI in one SA payload, in every order (ESP with its SPI next to IKE without one)
	for _, sizes := range [][]int{{4, 0}, {0, 4}, {8, 0, 4}, {4, 0, 0}, {0, 0, 4}, {255, 0}, {1, 0, 1}} {
		var props []ref.Proposal
		for i, sz := range sizes {
			pr := ref.Proposal{Num: uint8(i + 1), Proto: 1, Tr: []ref.Transform{tv(1, 12, 14, 128), tr(2, 5), tr(3, 12), tr(4, 14)}}
			if sz > 0 {
				pr.Proto, pr.SPI = 3, Pat(sz, sz+i)
				pr.Tr = []ref.Transform{tv(1, 12, 14, 256), tr(3, 2), tr(5, 0)}
			}
			props = append(props, pr)
		}
		f(fmt.Sprintf("SA.spi-mix=%v", sizes), one(ref.Payload{T: ref.PSA, SA: props}), true)
	}
	// a Delete payload that announces 4-octet SPIs and lists none (count = number of SPIs = 0), for every protocol id
	for _, proto := range []uint8{0, 1, 2, 3, 255} {
		d := ref.Payload{T: ref.PDelete, B: proto, SSize: 4, NSPI: 0}
		f(fmt.Sprintf("D.size4-empty=%d", proto), one(d), true)
		f(fmt.Sprintf("D.size4-empty+=%d", proto), ref.Msg{H: BaseHdr, P: []ref.Payload{{T: ref.PNonce, Data: Pat(4, 1)}, d, {T: ref.PDelete, B: 3, SSize: 4, NSPI: 1, SPIs: []uint32{7}}}}, true)
	}
	// chains longer than 64 KiB made of payloads that each fit their 16-bit length field (only the header's Length is
	// 32 bits wide): totals around 2^16 and 2^17
	for _, total := range []int{65530, 65531, 65532, 65533, 65534, 65535, 65536, 65537, 65538, 65539, 65540, 65541, 65544, 70000, 98304, 131071, 131072, 131073, 131080} {
		a := 40000
		rest := total - (5 + a) - 20 // CERT(a) + CERT(b) + Nonce(16)
		var ps []ref.Payload
		ps = append(ps, ref.Payload{T: ref.PCERT, B: 4, Data: Pat(a, total)})
		for rest > 0 {
			b := rest - 5
			if b > 50000 {
				b = 50000
			}
			if b < 1 {
				b = 1
			}
			ps = append(ps, ref.Payload{T: ref.PCERT, B: 4, Data: Pat(b, b)})
			rest -= 5 + b
		}
		ps = append(ps, ref.Payload{T: ref.PNonce, Data: Pat(16, total)})
		f(fmt.Sprintf("chain.total=%d", total), ref.Msg{H: BaseHdr, P: ps}, true)
	}
	// the same inside one SA payload: the number of proposals, and a variable-length attribute of every length in
	// the middle proposal
	for k := 1; k <= 64; k++ {
		var props []ref.Proposal
		for i := 0; i < k; i++ {
			props = append(props, ikeProposal(uint8(i+1)))
		}
		f(fmt.Sprintf("SA.nprop=%d", k), ref.Msg{H: BaseHdr, P: []ref.Payload{{T: ref.PSA, SA: props}, {T: ref.PNonce, Data: Pat(16, k)}}}, true)
	}
	for n := 1; n <= 1400; n++ {
		mid := ref.Proposal{Num: 2, Proto: 3, SPI: Pat(4, n), Tr: []ref.Transform{tv(1, 12, 14, 256), tlv(3, 12, 77, Pat(n, n)), tr(5, 0)}}
		f(fmt.Sprintf("SA.tlv-mid=%d", n), ref.Msg{H: BaseHdr, P: []ref.Payload{{T: ref.PSA, SA: []ref.Proposal{ikeProposal(1), mid, ikeProposal(3)}}, {T: ref.PKE, Group: 14, Data: Pat(8, 1)}}}, true)
	}
}

func bytesOf(v byte, n int) []byte {
	b := make([]byte, n)
	for i := range b {
		b[i] = v
	}
	return b
}

// permute calls f with every permutation of 0..n-1 (lexicographic order).
func permute(n int, f func([]int)) {
	p := make([]int, n)
	for i := range p {
		p[i] = i
	}
	for {
		f(append([]int(nil), p...))
		i := n - 2
		for i >= 0 && p[i] >= p[i+1] {
			i--
		}
		if i < 0 {
			return
		}
		j := n - 1
		for p[j] <= p[i] {
			j--
		}
		p[i], p[j] = p[j], p[i]
		for a, b := i+1, n-1; a < b; a, b = a+1, b-1 {
			p[a], p[b] = p[b], p[a]
		}
	}
}
