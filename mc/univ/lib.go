// Package univ connects the reference descriptors to the library under test
// (construction through the public Build* API, projection of library values back
// to descriptors) and defines the shared finite universes of messages, byte
// strings, suites and keys that the checks enumerate.
package univ

import (
	"fmt"

	"github.com/free5gc/ike/eap"
	"github.com/free5gc/ike/message"

	"verif/mc/ref"
)

// BuildPayloads constructs the library payload list for a descriptor through the
// public builder API only.
func BuildPayloads(ps []ref.Payload) (message.IKEPayloadContainer, error) {
	var c message.IKEPayloadContainer
	for _, p := range ps {
		if err := AppendPayload(&c, p); err != nil {
			return nil, err
		}
	}
	return c, nil
}

func AppendPayload(c *message.IKEPayloadContainer, p ref.Payload) error {
	switch p.T {
	case ref.PSA:
		sa := c.BuildSecurityAssociation()
		for _, pr := range p.SA {
			lp := sa.Proposals.BuildProposal(pr.Num, pr.Proto, pr.SPI)
			for _, t := range pr.Tr {
				var tc *message.TransformContainer
				switch t.Type {
				case 1:
					tc = &lp.EncryptionAlgorithm
				case 2:
					tc = &lp.PseudorandomFunction
				case 3:
					tc = &lp.IntegrityAlgorithm
				case 4:
					tc = &lp.DiffieHellmanGroup
				case 5:
					tc = &lp.ExtendedSequenceNumbers
				default:
					return fmt.Errorf("transform type %d outside the domain", t.Type)
				}
				var at, av *uint16
				var vv []byte
				if t.HasAttr {
					x := t.AType
					at = &x
					if t.TV {
						y := t.AValue
						av = &y
					} else {
						vv = t.AVar
					}
				}
				n := len(*tc)
				tc.BuildTransform(t.Type, t.ID, at, av, vv)
				if len(*tc) != n+1 {
					return fmt.Errorf("BuildTransform appended nothing")
				}
			}
		}
	case ref.PKE:
		c.BUildKeyExchange(p.Group, p.Data)
	case ref.PIDi:
		c.BuildIdentificationInitiator(p.B, p.Data)
	case ref.PIDr:
		c.BuildIdentificationResponder(p.B, p.Data)
	case ref.PCERT:
		c.BuildCertificate(p.B, p.Data)
	case ref.PCERTREQ:
		// there is no builder for CERTREQ; the struct is the public API
		*c = append(*c, &message.CertificateRequest{CertificateEncoding: p.B, CertificationAuthority: append([]byte(nil), p.Data...)})
	case ref.PAUTH:
		c.BuildAuthentication(p.B, p.Data)
	case ref.PNonce:
		c.BuildNonce(p.Data)
	case ref.PVendor:
		*c = append(*c, &message.VendorID{VendorIDData: append([]byte(nil), p.Data...)})
	case ref.PNotify:
		c.BuildNotification(p.B, p.NType, p.SPI, p.Data)
	case ref.PDelete:
		c.BuildDeletePayload(p.B, p.SSize, p.NSPI, append([]uint32(nil), p.SPIs...))
	case ref.PTSi, ref.PTSr:
		var tc *message.IndividualTrafficSelectorContainer
		if p.T == ref.PTSi {
			tc = &c.BuildTrafficSelectorInitiator().TrafficSelectors
		} else {
			tc = &c.BuildTrafficSelectorResponder().TrafficSelectors
		}
		for _, s := range p.TS {
			tc.BuildIndividualTrafficSelector(s.Type, s.Proto, s.SPort, s.EPort, s.SAddr, s.EAddr)
		}
	case ref.PCP:
		cp := c.BuildConfiguration(p.B)
		for _, a := range p.CP {
			cp.ConfigurationAttribute.BuildConfigurationAttribute(a.Type, a.Val)
		}
	case ref.PEAP:
		e := p.EAP
		pe := c.BuildEAP(eap.EapCode(e.Code), e.ID)
		td, err := BuildEAPData(e)
		if err != nil {
			return err
		}
		if td != nil {
			pe.EapTypeData = td
		}
	default:
		return fmt.Errorf("payload type %d has no library constructor", p.T)
	}
	return nil
}

func BuildEAPData(e *ref.EAP) (eap.EapTypeData, error) {
	switch e.Method {
	case 0:
		return nil, nil
	case 1:
		return &eap.EapIdentity{IdentityData: append([]byte(nil), e.Data...)}, nil
	case 2:
		return &eap.EapNotification{NotificationData: append([]byte(nil), e.Data...)}, nil
	case 3:
		return &eap.EapNak{NakData: append([]byte(nil), e.Data...)}, nil
	case 254:
		return message.BuildEapExpanded(e.VID, e.VType, e.Data), nil
	case 50:
		a := eap.NewEapAkaPrime(eap.EapAkaSubtype(e.Sub))
		for _, at := range e.AKA {
			if err := a.SetAttr(eap.EapAkaPrimeAttrType(at.T), at.V); err != nil {
				return nil, err
			}
		}
		return a, nil
	}
	return nil, fmt.Errorf("EAP method %d outside the domain", e.Method)
}

func BuildEAP(e *ref.EAP) (*eap.EAP, error) {
	td, err := BuildEAPData(e)
	if err != nil {
		return nil, err
	}
	r := &eap.EAP{Code: eap.EapCode(e.Code), Identifier: e.ID}
	if td != nil {
		r.EapTypeData = td
	}
	return r, nil
}

// Build constructs the library message for a descriptor.
func Build(m ref.Msg) (*message.IKEMessage, error) {
	ps, err := BuildPayloads(m.P)
	if err != nil {
		return nil, err
	}
	lm := message.NewMessage(m.H.ISPI, m.H.RSPI, m.H.Exch, false, false, m.H.MsgID, ps)
	lm.MajorVersion, lm.MinorVersion, lm.Flags = m.H.Major, m.H.Minor, m.H.Flags
	return lm, nil
}

// ---------------------------------------------------------------------------

func ProjectHdr(h *message.IKEHeader) ref.Hdr {
	if h == nil {
		return ref.Hdr{}
	}
	return ref.Hdr{ISPI: h.InitiatorSPI, RSPI: h.ResponderSPI, Major: h.MajorVersion, Minor: h.MinorVersion,
		Exch: h.ExchangeType, Flags: h.Flags, MsgID: h.MessageID}
}

func cp(b []byte) []byte { return append([]byte(nil), b...) }

func projTr(dst *[]ref.Transform, listType uint8, tc message.TransformContainer) {
	for _, t := range tc {
		if t == nil {
			*dst = append(*dst, ref.Transform{Type: 255})
			continue
		}
		r := ref.Transform{Type: t.TransformType, ID: t.TransformID}
		if t.TransformType != listType {
			// filed under a foreign list: make it visible in the canonical form
			r.Type = 100 + listType
		}
		if t.AttributePresent {
			r.HasAttr = true
			r.AType = t.AttributeType
			if t.AttributeFormat == 1 {
				r.TV = true
				r.AValue = t.AttributeValue
			} else {
				r.AVar = cp(t.VariableLengthAttributeValue)
			}
		}
		*dst = append(*dst, r)
	}
}

func ProjectEAP(e *eap.EAP) *ref.EAP {
	if e == nil {
		return nil
	}
	r := &ref.EAP{Code: uint8(e.Code), ID: e.Identifier}
	switch d := e.EapTypeData.(type) {
	case nil:
	case *eap.EapIdentity:
		r.Method, r.Data = 1, cp(d.IdentityData)
	case *eap.EapNotification:
		r.Method, r.Data = 2, cp(d.NotificationData)
	case *eap.EapNak:
		r.Method, r.Data = 3, cp(d.NakData)
	case *eap.EapExpanded:
		r.Method, r.VID, r.VType, r.Data = 254, d.VendorID, d.VendorType, cp(d.VendorData)
	case *eap.EapAkaPrime:
		r.Method, r.Sub = 50, uint8(d.SubType())
		for t := 0; t < 256; t++ {
			a, err := d.GetAttr(eap.EapAkaPrimeAttrType(t))
			if err == nil {
				r.AKA = append(r.AKA, ref.AKAAttr{T: uint8(t), V: cp(a.GetValue())})
			}
		}
	default:
		r.Method = 255
	}
	return r
}

// ProjectPayloads reads only exported fields (and the EAP-AKA' accessors).
func ProjectPayloads(c message.IKEPayloadContainer) []ref.Payload {
	var out []ref.Payload
	for _, p := range c {
		var r ref.Payload
		switch v := p.(type) {
		case *message.SecurityAssociation:
			r.T = ref.PSA
			for _, pr := range v.Proposals {
				rp := ref.Proposal{Num: pr.ProposalNumber, Proto: pr.ProtocolID, SPI: cp(pr.SPI)}
				projTr(&rp.Tr, 1, pr.EncryptionAlgorithm)
				projTr(&rp.Tr, 2, pr.PseudorandomFunction)
				projTr(&rp.Tr, 3, pr.IntegrityAlgorithm)
				projTr(&rp.Tr, 4, pr.DiffieHellmanGroup)
				projTr(&rp.Tr, 5, pr.ExtendedSequenceNumbers)
				r.SA = append(r.SA, rp)
			}
		case *message.KeyExchange:
			r.T, r.Group, r.Data = ref.PKE, v.DiffieHellmanGroup, cp(v.KeyExchangeData)
		case *message.IdentificationInitiator:
			r.T, r.B, r.Data = ref.PIDi, v.IDType, cp(v.IDData)
		case *message.IdentificationResponder:
			r.T, r.B, r.Data = ref.PIDr, v.IDType, cp(v.IDData)
		case *message.Certificate:
			r.T, r.B, r.Data = ref.PCERT, v.CertificateEncoding, cp(v.CertificateData)
		case *message.CertificateRequest:
			r.T, r.B, r.Data = ref.PCERTREQ, v.CertificateEncoding, cp(v.CertificationAuthority)
		case *message.Authentication:
			r.T, r.B, r.Data = ref.PAUTH, v.AuthenticationMethod, cp(v.AuthenticationData)
		case *message.Nonce:
			r.T, r.Data = ref.PNonce, cp(v.NonceData)
		case *message.VendorID:
			r.T, r.Data = ref.PVendor, cp(v.VendorIDData)
		case *message.Notification:
			r.T, r.B, r.NType, r.SPI, r.Data = ref.PNotify, v.ProtocolID, v.NotifyMessageType, cp(v.SPI), cp(v.NotificationData)
		case *message.Delete:
			r.T, r.B, r.SSize, r.NSPI, r.SPIs = ref.PDelete, v.ProtocolID, v.SPISize, v.NumberOfSPI, append([]uint32(nil), v.SPIs...)
		case *message.TrafficSelectorInitiator:
			r.T = ref.PTSi
			r.TS = projTS(v.TrafficSelectors)
		case *message.TrafficSelectorResponder:
			r.T = ref.PTSr
			r.TS = projTS(v.TrafficSelectors)
		case *message.Configuration:
			r.T, r.B = ref.PCP, v.ConfigurationType
			for _, a := range v.ConfigurationAttribute {
				r.CP = append(r.CP, ref.CPAttr{Type: a.Type, Val: cp(a.Value)})
			}
		case *message.PayloadEap:
			r.T = ref.PEAP
			r.EAP = ProjectEAP(v.EAP)
			if r.EAP == nil {
				r.EAP = &ref.EAP{Method: 253}
			}
		case *message.Encrypted:
			r.T, r.B, r.Data = ref.PSK, v.NextPayload, cp(v.EncryptedData)
		default:
			r.T = 0
		}
		out = append(out, r)
	}
	return out
}

func projTS(tc message.IndividualTrafficSelectorContainer) []ref.Selector {
	var o []ref.Selector
	for _, s := range tc {
		o = append(o, ref.Selector{Type: s.TSType, Proto: s.IPProtocolID, SPort: s.StartPort, EPort: s.EndPort,
			SAddr: cp(s.StartAddress), EAddr: cp(s.EndAddress)})
	}
	return o
}

func Project(m *message.IKEMessage) ref.Msg {
	return ref.Msg{H: ProjectHdr(m.IKEHeader), P: ProjectPayloads(m.Payloads)}
}
