package univ

import (
	"reflect"
)

// Relayout rearranges the memory of a library value the way a caller is entitled to lay it out:
// inside every struct, all slice fields of the same type become consecutive windows of ONE backing
// array (in reverse field order, so that the layout differs from any natural processing order), each
// window's capacity reaching over its siblings, followed by spare capacity filled with clones of the
// last element ("sentinels"). Values are unchanged; only who shares memory with whom differs from
// what the Build* helpers produce. An encoder that appends to one of the caller's slices (instead of
// to a fresh one) overwrites a sibling window or a sentinel, which the caller then sees.
//
// It returns a function that reports whether any sentinel was overwritten.
func Relayout(v interface{}) (sentinelsIntact func() bool) { return RelayoutMode(v, 0) }

// RelayoutMode: mode 0 lays the sibling windows out in reverse field order; mode 1 keeps the first
// field first and reverses the others (so that the slice an encoder is most likely to start from is
// followed by siblings in an order different from the processing order).
func RelayoutMode(v interface{}, mode int) (sentinelsIntact func() bool) {
	var checks []func() bool
	seen := map[uintptr]bool{}
	var walk func(rv reflect.Value)
	walk = func(rv reflect.Value) {
		switch rv.Kind() {
		case reflect.Ptr:
			if rv.IsNil() || seen[rv.Pointer()] {
				return
			}
			seen[rv.Pointer()] = true
			walk(rv.Elem())
		case reflect.Interface:
			if !rv.IsNil() {
				walk(rv.Elem())
			}
		case reflect.Struct:
			// group exported, settable slice fields by type
			groups := map[reflect.Type][]int{}
			for i := 0; i < rv.NumField(); i++ {
				f := rv.Field(i)
				if f.Kind() == reflect.Slice && f.CanSet() && f.Len() > 0 {
					groups[f.Type()] = append(groups[f.Type()], i)
				}
			}
			for t, idx := range groups {
				total := 0
				for _, i := range idx {
					total += rv.Field(i).Len()
				}
				spare := 4
				arr := reflect.MakeSlice(t, total+spare, total+spare)
				off := 0
				order := make([]int, 0, len(idx))
				if mode == 1 && len(idx) > 0 {
					order = append(order, idx[0])
					for k := len(idx) - 1; k >= 1; k-- {
						order = append(order, idx[k])
					}
				} else {
					for k := len(idx) - 1; k >= 0; k-- {
						order = append(order, idx[k])
					}
				}
				for _, fi := range order {
					f := rv.Field(fi)
					n := f.Len()
					reflect.Copy(arr.Slice(off, off+n), f)
					f.Set(arr.Slice(off, off+n)) // capacity reaches to the end of the array
					off += n
				}
				// sentinels: byte slices get 0xA5, others a copy of the first element
				sent := arr.Slice(total, total+spare)
				if t.Elem().Kind() == reflect.Uint8 {
					for j := 0; j < spare; j++ {
						sent.Index(j).SetUint(0xA5)
					}
					snap := make([]byte, spare)
					reflect.Copy(reflect.ValueOf(snap), sent)
					checks = append(checks, func() bool {
						cur := make([]byte, spare)
						reflect.Copy(reflect.ValueOf(cur), sent)
						return string(cur) == string(snap)
					})
				} else {
					zero := reflect.Zero(t.Elem())
					for j := 0; j < spare; j++ {
						sent.Index(j).Set(zero)
					}
					checks = append(checks, func() bool {
						for j := 0; j < spare; j++ {
							if !sent.Index(j).IsZero() {
								return false
							}
						}
						return true
					})
				}
			}
			for i := 0; i < rv.NumField(); i++ {
				if rv.Field(i).CanSet() || rv.Field(i).Kind() == reflect.Ptr || rv.Field(i).Kind() == reflect.Interface {
					walk(rv.Field(i))
				}
			}
		case reflect.Slice:
			for i := 0; i < rv.Len(); i++ {
				walk(rv.Index(i))
			}
		}
	}
	walk(reflect.ValueOf(v))
	return func() bool {
		for _, c := range checks {
			if !c() {
				return false
			}
		}
		return true
	}
}
