// Command instr generates a `go build -overlay` for the library under test (E5 of
// DESIGN.md). It never touches the repository: rewritten files go to an output
// directory and are mapped over the originals by the overlay JSON.
//
//	instr -repo /repo -out <dir>     writes <dir>/overlay.json
//
// Rewrites (typed, using go/packages + go/types):
//  1. a virtual package github.com/free5gc/ike/verifrt (hooks that are no-ops unless a
//     harness installs handlers) and verifrt/vsync (scheduler-aware stand-ins for sync);
//  2. verifrt.Access(id, definiteWrite) before every statement outside init that mentions
//     a package-level variable of the module or crypto/rand.Reader;
//  3. `for k, v := range m` over a map whose body does not mutate m becomes an iteration
//     over verifrt.MapKeys(m) — the map-order seam;
//  4. imports of "sync" in module packages are redirected to verifrt/vsync.
package main

import (
	"bytes"
	"encoding/json"
	"flag"
	"fmt"
	"go/ast"
	"go/format"
	"go/token"
	"go/types"
	"os"
	"path/filepath"
	"sort"
	"strconv"
	"strings"

	"golang.org/x/tools/go/packages"
)

const modPath = "github.com/free5gc/ike"

type site struct {
	ID    int    `json:"id"`
	Var   string `json:"var"`
	Pos   string `json:"pos"`
	Write bool   `json:"write"`
}

type instr struct {
	fset            *token.FileSet
	sites           []site
	mapLoops        int
	mapLoopsSkipped int
	syncFiles       int
	steps           int
}

func main() {
	repo := flag.String("repo", "/repo", "repository root")
	out := flag.String("out", "", "output directory")
	flag.Parse()
	if *out == "" {
		fmt.Fprintln(os.Stderr, "need -out")
		os.Exit(2)
	}
	cfg := &packages.Config{Mode: packages.NeedName | packages.NeedFiles | packages.NeedCompiledGoFiles | packages.NeedSyntax | packages.NeedTypes | packages.NeedTypesInfo | packages.NeedImports | packages.NeedDeps,
		Dir: *repo, Env: append(os.Environ(), "GOFLAGS=-mod=mod", "GOPROXY=off", "GOSUMDB=off")}
	pkgs, err := packages.Load(cfg, "./...")
	if err != nil {
		fmt.Fprintln(os.Stderr, "load:", err)
		os.Exit(1)
	}
	in := &instr{}
	overlay := map[string]string{}
	globalVars := 0
	for _, p := range pkgs {
		if len(p.Errors) > 0 {
			fmt.Fprintln(os.Stderr, "package errors in", p.PkgPath, p.Errors[0])
			os.Exit(1)
		}
		if !strings.HasPrefix(p.PkgPath, modPath) || strings.Contains(p.PkgPath, "/verifrt") {
			continue
		}
		in.fset = p.Fset
		for i, f := range p.Syntax {
			name := p.CompiledGoFiles[i]
			if strings.HasSuffix(name, "_test.go") {
				continue
			}
			changed := in.rewriteFile(p, f)
			if !changed {
				continue
			}
			// inserted statements carry no positions, which lets the printer misplace comments (even into the
			// middle of a statement); only the comments before the package clause (build constraints) are kept
			var keep []*ast.CommentGroup
			for _, cg := range f.Comments {
				if cg.End() < f.Package {
					keep = append(keep, cg)
				}
			}
			f.Comments = keep
			var buf bytes.Buffer
			if err := format.Node(&buf, p.Fset, f); err != nil {
				fmt.Fprintln(os.Stderr, "format", name, err)
				os.Exit(1)
			}
			rel, _ := filepath.Rel(*repo, name)
			dst := filepath.Join(*out, "src", rel)
			os.MkdirAll(filepath.Dir(dst), 0o755)
			if err := os.WriteFile(dst, buf.Bytes(), 0o644); err != nil {
				fmt.Fprintln(os.Stderr, err)
				os.Exit(1)
			}
			overlay[name] = dst
		}
	}
	// per package: register pointers to all package-level variables (for the state footprint of C18)
	atomicImports := 0
	for _, p := range pkgs {
		if !strings.HasPrefix(p.PkgPath, modPath) || strings.Contains(p.PkgPath, "/verifrt") || len(p.GoFiles) == 0 {
			continue
		}
		for _, f := range p.Syntax {
			for _, im := range f.Imports {
				if im.Path.Value == `"sync/atomic"` {
					atomicImports++
				}
			}
		}
		var names []string
		sc := p.Types.Scope()
		for _, n := range sc.Names() {
			if v, ok := sc.Lookup(n).(*types.Var); ok && n != "_" {
				_ = v
				names = append(names, n)
			}
		}
		if len(names) == 0 {
			continue
		}
		var gb strings.Builder
		fmt.Fprintf(&gb, "package %s\n\nimport \"%s/verifrt\"\n\nfunc init() {\n\tverifrt.RegisterGlobals(%q, map[string]interface{}{\n", p.Name, modPath, p.PkgPath)
		for _, n := range names {
			fmt.Fprintf(&gb, "\t\t%q: &%s,\n", n, n)
		}
		gb.WriteString("\t})\n}\n")
		dir := filepath.Dir(p.GoFiles[0])
		rel, _ := filepath.Rel(*repo, dir)
		dst := filepath.Join(*out, "src", rel, "zz_verif_globals.go")
		os.MkdirAll(filepath.Dir(dst), 0o755)
		os.WriteFile(dst, []byte(gb.String()), 0o644)
		overlay[filepath.Join(dir, "zz_verif_globals.go")] = dst
		globalVars += len(names)
	}
	// the runtime packages
	rt := filepath.Join(*out, "verifrt", "verifrt.go")
	os.MkdirAll(filepath.Dir(rt), 0o755)
	atomicImportsForRuntime = atomicImports
	os.WriteFile(rt, []byte(verifrtSrc(in.sites)), 0o644)
	overlay[filepath.Join(*repo, "verifrt", "verifrt.go")] = rt
	vs := filepath.Join(*out, "verifrt", "vsync", "vsync.go")
	os.MkdirAll(filepath.Dir(vs), 0o755)
	os.WriteFile(vs, []byte(vsyncSrc), 0o644)
	overlay[filepath.Join(*repo, "verifrt", "vsync", "vsync.go")] = vs

	b, _ := json.MarshalIndent(map[string]interface{}{"Replace": overlay}, "", " ")
	os.WriteFile(filepath.Join(*out, "overlay.json"), b, 0o644)
	sb, _ := json.MarshalIndent(map[string]interface{}{"sites": in.sites, "map_loops_rewritten": in.mapLoops, "map_loops_left_alone": in.mapLoopsSkipped, "files_with_sync_redirected": in.syncFiles, "package_level_variables": globalVars, "sync_atomic_imports": atomicImports, "statement_steps": in.steps}, "", " ")
	os.WriteFile(filepath.Join(*out, "sites.json"), sb, 0o644)
	fmt.Printf("instr: %d files in the overlay, %d access sites, %d map loops rewritten (%d left alone), %d files with sync redirected, %d package-level variables registered, %d sync/atomic imports\n",
		len(overlay)-2, len(in.sites), in.mapLoops, in.mapLoopsSkipped, in.syncFiles, globalVars, atomicImports)
}

// ---- rewriting -------------------------------------------------------------------

func (in *instr) rewriteFile(p *packages.Package, f *ast.File) bool {
	changed := false
	needRT := false
	// 4. sync redirect
	for _, im := range f.Imports {
		if im.Path.Value == `"sync"` {
			im.Path.Value = `"` + modPath + `/verifrt/vsync"`
			if im.Name == nil {
				im.Name = ast.NewIdent("sync")
			}
			in.syncFiles++
			changed = true
		}
	}
	for _, d := range f.Decls {
		fd, ok := d.(*ast.FuncDecl)
		if !ok || fd.Body == nil {
			continue
		}
		if fd.Recv == nil && fd.Name.Name == "init" {
			continue
		}
		if in.rewriteBlock(p, fd.Body) {
			changed, needRT = true, true
		}
	}
	if needRT {
		addImport(f, modPath+"/verifrt", "verifrt")
	}
	return changed
}

func addImport(f *ast.File, path, name string) {
	for _, im := range f.Imports {
		if im.Path.Value == strconv.Quote(path) {
			return
		}
	}
	spec := &ast.ImportSpec{Name: ast.NewIdent(name), Path: &ast.BasicLit{Kind: token.STRING, Value: strconv.Quote(path)}}
	gd := &ast.GenDecl{Tok: token.IMPORT, Specs: []ast.Spec{spec}}
	f.Decls = append([]ast.Decl{gd}, f.Decls...)
	f.Imports = append(f.Imports, spec)
}

// globalsIn reports the package-level variables mentioned by the expressions / simple statement n
// (not descending into nested blocks and function literals, which are instrumented on their own).
func (in *instr) globalsIn(p *packages.Package, n ast.Node) (names []string, write bool) {
	if n == nil {
		return nil, false
	}
	seen := map[string]bool{}
	isGlobal := func(id *ast.Ident) (string, bool) {
		obj := p.TypesInfo.Uses[id]
		if obj == nil {
			obj = p.TypesInfo.Defs[id]
		}
		v, ok := obj.(*types.Var)
		if !ok || v.IsField() || v.Pkg() == nil {
			return "", false
		}
		if v.Parent() != v.Pkg().Scope() {
			return "", false
		}
		pp := v.Pkg().Path()
		if strings.HasPrefix(pp, modPath) || (pp == "crypto/rand" && v.Name() == "Reader") {
			return pp + "." + v.Name(), true
		}
		return "", false
	}
	rootGlobal := func(e ast.Expr) bool {
		for {
			switch x := e.(type) {
			case *ast.Ident:
				_, ok := isGlobal(x)
				return ok
			case *ast.IndexExpr:
				e = x.X
			case *ast.SelectorExpr:
				if id, ok := x.X.(*ast.Ident); ok {
					if _, isPkg := p.TypesInfo.Uses[id].(*types.PkgName); isPkg {
						_, ok := isGlobal(x.Sel)
						return ok
					}
				}
				e = x.X
			case *ast.StarExpr:
				e = x.X
			case *ast.ParenExpr:
				e = x.X
			default:
				return false
			}
		}
	}
	switch s := n.(type) {
	case *ast.AssignStmt:
		for _, l := range s.Lhs {
			if rootGlobal(l) {
				write = true
			}
		}
	case *ast.IncDecStmt:
		if rootGlobal(s.X) {
			write = true
		}
	case *ast.ExprStmt:
		if call, ok := s.X.(*ast.CallExpr); ok {
			if id, ok := call.Fun.(*ast.Ident); ok && id.Name == "delete" && len(call.Args) > 0 && rootGlobal(call.Args[0]) {
				write = true
			}
		}
	}
	ast.Inspect(n, func(x ast.Node) bool {
		switch y := x.(type) {
		case *ast.FuncLit:
			return false
		case *ast.BlockStmt:
			return false
		case *ast.Ident:
			if name, ok := isGlobal(y); ok && !seen[name] {
				seen[name] = true
				names = append(names, name)
			}
		}
		return true
	})
	sort.Strings(names)
	return names, write
}

func (in *instr) accessCall(p *packages.Package, at token.Pos, names []string, write bool) ast.Stmt {
	id := len(in.sites)
	pos := p.Fset.Position(at)
	in.sites = append(in.sites, site{ID: id, Var: strings.Join(names, ","), Pos: fmt.Sprintf("%s:%d", filepath.Base(pos.Filename), pos.Line), Write: write})
	w := "false"
	if write {
		w = "true"
	}
	return &ast.ExprStmt{X: &ast.CallExpr{Fun: &ast.SelectorExpr{X: ast.NewIdent("verifrt"), Sel: ast.NewIdent("Access")},
		Args: []ast.Expr{&ast.BasicLit{Kind: token.INT, Value: strconv.Itoa(id)}, ast.NewIdent(w)}}}
}

// headerOf returns the parts of a compound statement that are evaluated before its body.
func headerOf(s ast.Stmt) []ast.Node {
	switch x := s.(type) {
	case *ast.IfStmt:
		ns := []ast.Node{x.Init, x.Cond}
		for e := x.Else; e != nil; {
			ei, ok := e.(*ast.IfStmt)
			if !ok {
				break
			}
			ns = append(ns, ei.Init, ei.Cond) // else-if chains are evaluated as part of this statement
			e = ei.Else
		}
		return ns
	case *ast.ForStmt:
		return []ast.Node{x.Init, x.Cond, x.Post}
	case *ast.RangeStmt:
		return []ast.Node{x.X}
	case *ast.SwitchStmt:
		return []ast.Node{x.Init, x.Tag}
	case *ast.TypeSwitchStmt:
		return []ast.Node{x.Init, x.Assign}
	case *ast.SelectStmt:
		var ns []ast.Node
		for _, c := range x.Body.List {
			if cc, ok := c.(*ast.CommClause); ok && cc.Comm != nil {
				ns = append(ns, cc.Comm)
			}
		}
		return ns
	case *ast.LabeledStmt:
		return headerOf(x.Stmt)
	case *ast.BlockStmt:
		return nil
	}
	return []ast.Node{s}
}

func (in *instr) rewriteBlock(p *packages.Package, b *ast.BlockStmt) bool {
	if b == nil {
		return false
	}
	list, ch := in.rewriteList(p, b.List)
	b.List = list
	return ch
}

func (in *instr) rewriteList(p *packages.Package, list []ast.Stmt) ([]ast.Stmt, bool) {
	changed := false
	var out []ast.Stmt
	for _, s := range list {
		switch s.(type) {
		case *ast.CaseClause, *ast.CommClause:
			// the body of a switch / select: nothing may be inserted between the clauses
			if in.recurse(p, s) {
				changed = true
			}
			out = append(out, s)
			continue
		}
		// 3. map range rewrite (may replace s)
		if rs, ok := s.(*ast.RangeStmt); ok {
			if ns, ok := in.rewriteMapRange(p, rs); ok {
				s = ns
				changed = true
			}
		}
		// 2. access point before the statement
		var names []string
		write := false
		for _, h := range headerOf(s) {
			if h == nil {
				continue
			}
			n, w := in.globalsIn(p, h)
			names = append(names, n...)
			write = write || w
		}
		if len(names) > 0 {
			out = append(out, in.accessCall(p, s.Pos(), uniq(names), write))
			changed = true
		}
		// 5. statement step (a scheduling point for the statement-grained phase of C18)
		out = append(out, &ast.ExprStmt{X: &ast.CallExpr{Fun: &ast.SelectorExpr{X: ast.NewIdent("verifrt"), Sel: ast.NewIdent("Step")}}})
		in.steps++
		changed = true
		// recurse into nested blocks and function literals
		if in.recurse(p, s) {
			changed = true
		}
		out = append(out, s)
	}
	return out, changed
}

func uniq(s []string) []string {
	sort.Strings(s)
	var o []string
	for i, x := range s {
		if i == 0 || x != s[i-1] {
			o = append(o, x)
		}
	}
	return o
}

func (in *instr) recurse(p *packages.Package, s ast.Stmt) bool {
	changed := false
	ast.Inspect(s, func(n ast.Node) bool {
		switch x := n.(type) {
		case *ast.BlockStmt:
			if in.rewriteBlock(p, x) {
				changed = true
			}
			return false
		case *ast.CaseClause:
			l, ch := in.rewriteList(p, x.Body)
			x.Body = l
			changed = changed || ch
			return false
		case *ast.CommClause:
			l, ch := in.rewriteList(p, x.Body)
			x.Body = l
			changed = changed || ch
			return false
		case *ast.FuncLit:
			if in.rewriteBlock(p, x.Body) {
				changed = true
			}
			return false
		}
		return true
	})
	return changed
}

// rewriteMapRange: for k, v := range m {body}  ->  for _, k := range verifrt.MapKeys(m) { v := m[k]; body }
func (in *instr) rewriteMapRange(p *packages.Package, rs *ast.RangeStmt) (ast.Stmt, bool) {
	t := p.TypesInfo.TypeOf(rs.X)
	if t == nil {
		return nil, false
	}
	if _, ok := t.Underlying().(*types.Map); !ok {
		return nil, false
	}
	// the ranged expression must be a plain identifier or selector chain (no calls: evaluated twice)
	if !pureExpr(rs.X) {
		in.mapLoopsSkipped++
		return nil, false
	}
	src := exprString(p.Fset, rs.X)
	mutates := false
	ast.Inspect(rs.Body, func(n ast.Node) bool {
		switch x := n.(type) {
		case *ast.AssignStmt:
			for _, l := range x.Lhs {
				if ie, ok := l.(*ast.IndexExpr); ok && exprString(p.Fset, ie.X) == src {
					mutates = true
				}
				if exprString(p.Fset, l) == src {
					mutates = true
				}
			}
		case *ast.CallExpr:
			if id, ok := x.Fun.(*ast.Ident); ok && id.Name == "delete" && len(x.Args) > 0 && exprString(p.Fset, x.Args[0]) == src {
				mutates = true
			}
		}
		return true
	})
	if mutates || rs.Tok != token.DEFINE && (rs.Key != nil || rs.Value != nil) {
		in.mapLoopsSkipped++
		return nil, false
	}
	keyName := ""
	if id, ok := rs.Key.(*ast.Ident); ok && id.Name != "_" {
		keyName = id.Name
	}
	valName := ""
	if id, ok := rs.Value.(*ast.Ident); ok && id.Name != "_" {
		valName = id.Name
	}
	if keyName == "" && valName == "" {
		in.mapLoopsSkipped++ // neither key nor value is used: the order cannot matter
		return nil, false
	}
	in.mapLoops++
	if keyName == "" {
		keyName = "verifrtKey"
	}
	call := &ast.CallExpr{Fun: &ast.SelectorExpr{X: ast.NewIdent("verifrt"), Sel: ast.NewIdent("MapKeys")}, Args: []ast.Expr{rs.X}}
	body := rs.Body
	if valName != "" {
		assign := &ast.AssignStmt{Lhs: []ast.Expr{ast.NewIdent(valName)}, Tok: token.DEFINE, Rhs: []ast.Expr{&ast.IndexExpr{X: rs.X, Index: ast.NewIdent(keyName)}}}
		body = &ast.BlockStmt{List: append([]ast.Stmt{assign}, rs.Body.List...)}
	}
	return &ast.RangeStmt{Key: ast.NewIdent("_"), Value: ast.NewIdent(keyName), Tok: token.DEFINE, X: call, Body: body}, true
}

func pureExpr(e ast.Expr) bool {
	switch x := e.(type) {
	case *ast.Ident:
		return true
	case *ast.SelectorExpr:
		return pureExpr(x.X)
	case *ast.StarExpr:
		return pureExpr(x.X)
	case *ast.ParenExpr:
		return pureExpr(x.X)
	}
	return false
}

func exprString(fset *token.FileSet, e ast.Expr) string {
	var b bytes.Buffer
	format.Node(&b, fset, e)
	return b.String()
}

// ---- generated runtime -------------------------------------------------------------

var atomicImportsForRuntime int

func verifrtSrc(sites []site) string {
	var sb strings.Builder
	sb.WriteString(`// Package verifrt is generated by /verif/instr; it exists only in the overlay.
package verifrt

import "fmt"

// AccessHook is called before every statement that mentions package-level state.
var AccessHook func(id int, write bool)

func Access(id int, write bool) {
	if h := AccessHook; h != nil {
		h(id, write)
	}
}

// MapOrderHook chooses the iteration order of a map of n keys (a permutation of 0..n-1);
// nil keeps Go's native (randomised) order.
var MapOrderHook func(n int) []int

// LessHook-free canonical base order: keys are first put into the order in which Go yields them.
func MapKeys[M ~map[K]V, K comparable, V any](m M) []K {
	keys := make([]K, 0, len(m))
	for k := range m {
		keys = append(keys, k)
	}
	if h := MapOrderHook; h != nil && len(keys) > 1 {
		sortKeys(keys)
		perm := h(len(keys))
		out := make([]K, len(keys))
		for i, j := range perm {
			out[i] = keys[j]
		}
		return out
	}
	return keys
}

// sortKeys gives the keys a deterministic base order (by their printed form) so that the
// permutation chosen by the harness means the same thing in every execution.
func sortKeys[K comparable](keys []K) {
	s := make([]string, len(keys))
	for i, k := range keys {
		s[i] = sprint(k)
	}
	for i := 1; i < len(keys); i++ {
		for j := i; j > 0 && less(s[j], s[j-1]); j-- {
			s[j], s[j-1] = s[j-1], s[j]
			keys[j], keys[j-1] = keys[j-1], keys[j]
		}
	}
}

func less(a, b string) bool {
	if len(a) != len(b) {
		return len(a) < len(b)
	}
	return a < b
}

// Globals holds pointers to every package-level variable of the module, per package.
var Globals = map[string]map[string]interface{}{}

func RegisterGlobals(pkg string, m map[string]interface{}) { Globals[pkg] = m }

// Scheduler hooks used by verifrt/vsync.
var PointHook func(label string)
var BlockHook func(label string, waiting func() bool)

func Point(label string) {
	if h := PointHook; h != nil {
		h(label)
	}
}

// StepHook is called before every statement of the library (outside init functions).
var StepHook func()

func Step() {
	if h := StepHook; h != nil {
		h()
	}
}

// Sites describes every access site: "id var pos write".
var Sites = []string{
`)
	for _, s := range sites {
		fmt.Fprintf(&sb, "\t%q,\n", fmt.Sprintf("%d %s %s write=%v", s.ID, s.Var, s.Pos, s.Write))
	}
	sb.WriteString(`}
`)
	sb.WriteString("\nfunc sprint(v any) string { return fmt.Sprint(v) }\n")
	fmt.Fprintf(&sb, "\n// AtomicImports is the number of files of the module that import sync/atomic (not redirected).\nconst AtomicImports = %d\n", atomicImportsForRuntime)
	return sb.String()
}

const vsyncSrc = `// Package vsync stands in for package sync inside the library under test (overlay only).
// With no scheduler hooks installed every type behaves exactly like its sync counterpart;
// under the cooperative scheduler lock operations become scheduling points and a thread
// that cannot take a lock is parked instead of blocking the process.
package vsync

import (
	realsync "sync"

	"github.com/free5gc/ike/verifrt"
)

type Locker = realsync.Locker

func active() bool { return verifrt.BlockHook != nil }

type Mutex struct {
	mu     realsync.Mutex
	locked bool
}

func (m *Mutex) Lock() {
	if !active() {
		m.mu.Lock()
		return
	}
	verifrt.Point("mutex.Lock")
	verifrt.BlockHook("mutex.Lock(wait)", func() bool { return m.locked })
	m.locked = true
}

func (m *Mutex) TryLock() bool {
	if !active() {
		return m.mu.TryLock()
	}
	verifrt.Point("mutex.TryLock")
	if m.locked {
		return false
	}
	m.locked = true
	return true
}

func (m *Mutex) Unlock() {
	if !active() {
		m.mu.Unlock()
		return
	}
	if !m.locked {
		panic("vsync: unlock of unlocked mutex")
	}
	m.locked = false
	verifrt.Point("mutex.Unlock")
}

type RWMutex struct {
	mu      realsync.RWMutex
	writer  bool
	readers int
	pending int // writers waiting: like sync.RWMutex, a waiting writer blocks new readers
}

func (m *RWMutex) Lock() {
	if !active() {
		m.mu.Lock()
		return
	}
	verifrt.Point("rwmutex.Lock")
	m.pending++
	verifrt.BlockHook("rwmutex.Lock(wait)", func() bool { return m.writer || m.readers > 0 })
	m.pending--
	m.writer = true
}

func (m *RWMutex) Unlock() {
	if !active() {
		m.mu.Unlock()
		return
	}
	m.writer = false
	verifrt.Point("rwmutex.Unlock")
}

func (m *RWMutex) RLock() {
	if !active() {
		m.mu.RLock()
		return
	}
	verifrt.Point("rwmutex.RLock")
	verifrt.BlockHook("rwmutex.RLock(wait)", func() bool { return m.writer || m.pending > 0 })
	m.readers++
}

func (m *RWMutex) RUnlock() {
	if !active() {
		m.mu.RUnlock()
		return
	}
	m.readers--
	verifrt.Point("rwmutex.RUnlock")
}

func (m *RWMutex) RLocker() Locker { return (*rlocker)(m) }

type rlocker RWMutex

func (r *rlocker) Lock()   { (*RWMutex)(r).RLock() }
func (r *rlocker) Unlock() { (*RWMutex)(r).RUnlock() }

type Once struct {
	once    realsync.Once
	done    bool
	running bool
}

func (o *Once) Do(f func()) {
	if !active() {
		o.once.Do(f)
		return
	}
	verifrt.Point("once.Do")
	verifrt.BlockHook("once.Do(wait)", func() bool { return o.running })
	if o.done {
		return
	}
	o.running = true
	defer func() { o.running = false; o.done = true; verifrt.Point("once.Done") }()
	f()
}

type Pool struct {
	New   func() any
	pool  realsync.Pool
	items []any
}

func (p *Pool) Get() any {
	if !active() {
		if p.pool.New == nil && p.New != nil {
			p.pool.New = p.New
		}
		return p.pool.Get()
	}
	verifrt.Point("pool.Get")
	if n := len(p.items); n > 0 {
		x := p.items[n-1]
		p.items = p.items[:n-1]
		return x
	}
	if p.New != nil {
		return p.New()
	}
	return nil
}

func (p *Pool) Put(x any) {
	if !active() {
		p.pool.Put(x)
		return
	}
	verifrt.Point("pool.Put")
	p.items = append(p.items, x)
}

type Map struct{ m realsync.Map }

func (m *Map) Load(k any) (any, bool)          { verifrt.Point("map.Load"); return m.m.Load(k) }
func (m *Map) Store(k, v any)                   { verifrt.Point("map.Store"); m.m.Store(k, v) }
func (m *Map) LoadOrStore(k, v any) (any, bool) { verifrt.Point("map.LoadOrStore"); return m.m.LoadOrStore(k, v) }
func (m *Map) LoadAndDelete(k any) (any, bool)  { verifrt.Point("map.LoadAndDelete"); return m.m.LoadAndDelete(k) }
func (m *Map) Delete(k any)                     { verifrt.Point("map.Delete"); m.m.Delete(k) }
func (m *Map) Range(f func(k, v any) bool)      { verifrt.Point("map.Range"); m.m.Range(f) }
func (m *Map) Swap(k, v any) (any, bool)        { verifrt.Point("map.Swap"); return m.m.Swap(k, v) }
func (m *Map) CompareAndSwap(k, o, n any) bool  { verifrt.Point("map.CompareAndSwap"); return m.m.CompareAndSwap(k, o, n) }
func (m *Map) CompareAndDelete(k, o any) bool   { verifrt.Point("map.CompareAndDelete"); return m.m.CompareAndDelete(k, o) }

type WaitGroup = realsync.WaitGroup
type Cond = realsync.Cond

func NewCond(l Locker) *Cond { return realsync.NewCond(l) }

func OnceFunc(f func()) func() { var o Once; return func() { o.Do(f) } }
`
